#!/bin/bash
# Runs, for every kept seeded change, the check of the property it breaks (quick tier) in a scratch worktree and
# prints one line per change: CAUGHT / MISSED / INCONCLUSIVE / DOES-NOT-APPLY.
#   tools/regress_seeded.sh [seeded-id-prefix …]         env: S=<scratch dir> (default /tmp/mutrun3), SEED
set -u
cd /verif
export S=${S:-/tmp/mutrun3}
sel="${@:-}"
for d in seeded/*/; do
  id=$(basename $d)
  if [ -n "$sel" ]; then
    ok=0; for p in $sel; do case "$id" in $p*) ok=1;; esac; done; [ $ok = 1 ] || continue
  fi
  prop=$(python3 -c "import json;print(json.load(open('$d/meta.json'))['property'])")
  out=$(tools/try_seeded.sh /verif/${d}patch.diff $prop 2>&1)
  if echo "$out" | grep -q "PATCH-DOES-NOT-APPLY"; then echo "$id DOES-NOT-APPLY";
  elif echo "$out" | grep -q "^VIOLATION property=$prop"; then echo "$id CAUGHT $(echo "$out" | grep -m1 'key=' | sed 's/^ *//')";
  elif echo "$out" | grep -q "INCONCLUSIVE\|BUILD-ERROR"; then echo "$id INCONCLUSIVE $(echo "$out" | grep -m1 'INCONCLUSIVE\|BUILD-ERROR' | cut -c1-160)";
  else echo "$id MISSED $(echo "$out" | grep -m1 "^$prop " | cut -c1-120)"; fi
done
