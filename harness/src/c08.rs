//! C08 – executable content runs in document order with SCXML error semantics.
use crate::docgen::*;
use crate::report::{Args, Report};
use crate::structural::*;

pub fn run(args: &Args, rep: &mut Report) {
    let mut w = Workload::new(args, rep, Focus::Content);
    let dms: Vec<Dm> = if cfg!(feature = "full") { vec![Dm::Rfsm, Dm::Ecma] } else { vec![Dm::Rfsm] };
    let tune = |o: &mut GenOpts| {
        o.w_errors = 5;
        o.w_foreach = 4;
        o.w_if = 5;
        o.w_raise = 3;
        o.w_history = 2;
        o.w_parallel = 2;
        o.w_cond = 3;
        o.max_states = 6;
    };
    let n = args.scale(220, 2500);
    let mut rng = args.rng(81);
    for d in 0..n {
        if crate::report::should_stop() {
            break;
        }
        let dm = dms[d % dms.len()];
        let mut o = GenOpts::structural(dm, args.thorough());
        tune(&mut o);
        let doc = generate(&mut rng, &o, &format!("c{}", d));
        let f = match crate::refsim::Flat::from_doc(&doc) {
            Ok(f) => f,
            Err(_) => continue,
        };
        let alpha = alphabet(&o);
        // every fourth ECMAScript document runs without the option `ecma:strict` (what a host gets by default): the
        // content sub-language generated here (declared variables, <assign>, <foreach>, conditions) means the same
        let default_mode = dm == Dm::Ecma && d % 8 == 1;
        crate::session::set_ecma_default_mode(default_mode);
        if default_mode {
            w.rep.count("documents_run_in_ecmascript_default_mode", 1);
        }
        for _ in 0..4 {
            let len = 2 + rng.below(if args.thorough() { 20 } else { 10 });
            let path = guided_path(&f, &alpha, len, &mut rng);
            let exp = expected_trace(&f, &path);
            if w.run_one(&doc, &f, &path, false) && (exp.stats.mid_block_errors > 0 || exp.stats.else_taken > 0) {
                w.rep.nontrivial_key(&distinct_key(&doc, &path));
            }
        }
    }
    crate::session::set_ecma_default_mode(false);
    w.flush_legality();
}
