//! C02 – each microstep takes exactly the W3C optimal transition set, in order, deterministically.
use crate::docgen::*;
use crate::refsim::Flat;
use crate::report::{Args, Report};
use crate::structural::*;

pub fn run(args: &Args, rep: &mut Report) {
    let mut w = Workload::new(args, rep, Focus::Order);
    // fixed core corpus first (shard 0): guarantees that every gated shape is observed
    if args.shard == 0 {
        for dm in crate::c01::dms_available() {
            for (doc, paths) in crate::corpus::all(dm) {
                let f = crate::refsim::Flat::from_doc(&doc).unwrap();
                for p in &paths {
                    if w.run_one(&doc, &f, p, false) {
                        w.rep.nontrivial_key(&distinct_key(&doc, p));
                    }
                }
            }
        }
    }

    let dms = crate::c01::dms_available();
    // (a) complete reachable graphs of small documents
    let mut rng = args.rng(2);
    let n_docs = args.scale(24, 100);
    let cap = if args.thorough() { 300 } else { 120 };
    let mut exhaustive_docs = 0u64;
    for d in 0..n_docs {
        if crate::report::should_stop() {
            break;
        }
        let dm = dms[d % dms.len()];
        let mut o = GenOpts::structural(dm, false);
        o.max_states = 7;
        o.w_parallel = 4;
        o.w_multi_target = 2;
        o.w_internal = 3;
        let doc = generate(&mut rng, &o, &format!("g{}", d));
        let f = match Flat::from_doc(&doc) {
            Ok(f) => f,
            Err(_) => continue,
        };
        let alpha = alphabet(&o);
        let (paths, complete, nstates) = reachable_edge_paths(&f, &alpha, cap);
        w.rep.count("reachable_states_enumerated", nstates as u64);
        w.rep.count("reachable_edges_exercised", paths.len() as u64);
        if complete {
            exhaustive_docs += 1;
        }
        for (i, p) in paths.iter().enumerate() {
            let exp = expected_trace(&f, p);
            if exp.diverged {
                continue;
            }
            if w.run_one(&doc, &f, p, i == 0) && (exp.stats.multi > 0 || exp.stats.preempted > 0) {
                w.rep.nontrivial_key(&distinct_key(&doc, p));
            }
        }
    }
    // (a') structured families: nested parallels completing in every order, histories at every level
    for d in 0..args.scale(24, 360) {
        if crate::report::should_stop() {
            break;
        }
        let dm = dms[d % dms.len()];
        let (doc, paths) = match d % 4 {
            0 => crate::corpus::done_tree(&mut rng, dm, d),
            1 => crate::corpus::history_tree(&mut rng, dm, d),
            2 => crate::corpus::guarded_eventless(&mut rng, d),
            _ => {
                w.rep.count("conflict_tree_documents", 1);
                crate::corpus::conflict_tree(&mut rng, dm, d)
            }
        };
        if let Ok(f) = Flat::from_doc(&doc) {
            for (i, p) in paths.iter().take(if d % 4 == 3 { 6 } else { 3 }).enumerate() {
                if w.run_one(&doc, &f, p, i == 0) {
                    w.rep.nontrivial_key(&distinct_key(&doc, p));
                }
            }
        }
    }
    w.rep.count("documents_with_complete_reachable_graph", exhaustive_docs);
    w.rep.count("documents_graph_enumerated", n_docs as u64);
    // (b) seeded random documents, random walks, every first path run twice
    let n = args.scale(150, 2500);
    sweep(
        &mut w,
        n,
        3,
        if args.thorough() { 30 } else { 12 },
        &dms,
        &|o: &mut GenOpts| {
            o.w_parallel = 4;
            o.w_internal = 3;
            o.w_multi_target = 3;
        },
        &|st, _| st.multi > 0 || st.preempted > 0,
        3,
    );
    w.flush_legality();
}
