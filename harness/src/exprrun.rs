//! Running rfsm-expressions in the real engine on a store built from the reference store.

use crate::expr_ref::{Store, V, READONLY_VAR};
use rufsm::datamodel::expression_engine::RFsmExpressionDatamodel;
use rufsm::datamodel::{create_data_arc, create_global_data_arc, Data, Datamodel, GlobalDataArc, SourceCode};
use rufsm::expression_engine::parser::ExpressionParser;
use std::panic::{catch_unwind, AssertUnwindSafe};

pub fn fill_store(gd: &GlobalDataArc, store: &Store) {
    let mut g = gd.lock().unwrap();
    g.data.map.clear();
    for (k, v) in store {
        let mut arc = create_data_arc(v.to_data());
        if k == READONLY_VAR {
            arc.set_readonly(true);
        }
        g.data.map.insert(k.clone(), arc);
    }
}

pub fn new_global(store: &Store) -> GlobalDataArc {
    let gd = create_global_data_arc();
    RFsmExpressionDatamodel::add_internal_functions_to_wrapper(&mut gd.lock().unwrap().actions);
    fill_store(gd_ref(&gd), store);
    gd
}

fn gd_ref(g: &GlobalDataArc) -> &GlobalDataArc {
    g
}

pub fn read_store(gd: &GlobalDataArc) -> Result<Store, String> {
    let g = gd.lock().map_err(|_| "poisoned".to_string())?;
    let mut s = Store::new();
    for (k, v) in &g.data.map {
        s.insert(k.clone(), V::from_arc(v)?);
    }
    Ok(s)
}

#[derive(Debug, Clone)]
pub enum Real {
    Val(V),
    Err(String),
    Panic(String),
}

impl Real {
    pub fn show(&self) -> String {
        match self {
            Real::Val(v) => v.show(),
            Real::Err(e) => format!("Err({})", e),
            Real::Panic(p) => format!("PANIC({})", p),
        }
    }
}

pub fn panic_text(p: Box<dyn std::any::Any + Send>) -> String {
    let msg = if let Some(s) = p.downcast_ref::<&str>() {
        s.to_string()
    } else if let Some(s) = p.downcast_ref::<String>() {
        s.clone()
    } else {
        "<non-string panic>".to_string()
    };
    match crate::phook::last_panic_location() {
        Some(loc) => format!("{} @ {}", msg, loc),
        None => msg,
    }
}

/// fresh parse + execute (ExpressionParser::execute)
pub fn eval_fresh(text: &str, gd: &GlobalDataArc) -> Real {
    let r = catch_unwind(AssertUnwindSafe(|| {
        let mut g = gd.lock().unwrap();
        ExpressionParser::execute(text.to_string(), &mut g)
    }));
    match r {
        Ok(Ok(arc)) => match V::from_arc(&arc) {
            Ok(v) => Real::Val(v),
            Err(e) => Real::Err(e),
        },
        Ok(Err(e)) => Real::Err(e),
        Err(p) => Real::Panic(panic_text(p)),
    }
}

/// Through the data model with a source id (compilation cache in play).
/// `RFsmExpressionDatamodel::execute` refuses array/map results, those come back as Err("Illegal Result…").
pub fn eval_cached(dm: &mut RFsmExpressionDatamodel, text: &str, source_id: usize) -> Real {
    let src = Data::Source(SourceCode::new(text, source_id));
    let r = catch_unwind(AssertUnwindSafe(|| dm.execute(&src)));
    match r {
        Ok(Ok(arc)) => match V::from_arc(&arc) {
            Ok(v) => Real::Val(v),
            Err(e) => Real::Err(e),
        },
        Ok(Err(e)) => Real::Err(e),
        Err(p) => Real::Panic(panic_text(p)),
    }
}
