//! C06 – history states restore exactly what was active when the parent was left.
use crate::docgen::*;
use crate::report::{Args, Report};
use crate::structural::*;

pub fn run(args: &Args, rep: &mut Report) {
    let mut w = Workload::new(args, rep, Focus::History);
    // fixed core corpus first (shard 0): guarantees that every gated shape is observed
    if args.shard == 0 {
        for dm in crate::c01::dms_available() {
            for (doc, paths) in crate::corpus::all(dm) {
                let f = crate::refsim::Flat::from_doc(&doc).unwrap();
                for p in &paths {
                    if w.run_one(&doc, &f, p, false) {
                        w.rep.nontrivial_key(&distinct_key(&doc, p));
                    }
                }
            }
        }
    }

    let dms = crate::c01::dms_available();
    let tune = |o: &mut GenOpts| {
        o.w_history = 7;
        o.w_parallel = 3;
        o.w_multi_target = 2;
        o.w_final = 1;
        o.w_eventless = 0;
        o.w_raise = 0;
        o.w_cond = 1;
        o.max_states = if o.max_states > 8 { 14 } else { 9 };
    };
    let n = args.scale(200, 3000);
    let mut rng = args.rng(61);
    // histories at random levels of random compound / parallel trees, left and re-entered repeatedly
    for d in 0..args.scale(30, 600) {
        if crate::report::should_stop() {
            break;
        }
        let dm = dms[d % dms.len()];
        let (doc, paths) = crate::corpus::history_tree(&mut rng, dm, d);
        let f = match crate::refsim::Flat::from_doc(&doc) {
            Ok(f) => f,
            Err(e) => {
                w.rep.inconclusive(&format!("history_tree document rejected by the reference: {:?}", e));
                continue;
            }
        };
        for p in &paths {
            let before = w.hstats.restores_differing_from_default;
            if w.run_one(&doc, &f, p, false) && w.hstats.restores_differing_from_default > before {
                w.rep.nontrivial_key(&distinct_key(&doc, p));
            }
        }
    }
    for d in 0..n {
        if crate::report::should_stop() {
            break;
        }
        let dm = dms[d % dms.len()];
        let mut o = GenOpts::structural(dm, args.thorough());
        tune(&mut o);
        let doc = generate(&mut rng, &o, &format!("h{}", d));
        let has_history = doc.all_nodes().iter().any(|n| n.is_history());
        if !has_history {
            continue;
        }
        let f = match crate::refsim::Flat::from_doc(&doc) {
            Ok(f) => f,
            Err(_) => continue,
        };
        let alpha = alphabet(&o);
        // (a) reachable graph (history values are part of the reference state) for small documents
        if d % 4 == 0 {
            let (paths, _complete, nstates) = reachable_edge_paths(&f, &alpha, if args.thorough() { 300 } else { 60 });
            w.rep.count("reachable_states_enumerated", nstates as u64);
            for p in &paths {
                let before = w.hstats.restores_differing_from_default;
                if w.run_one(&doc, &f, p, false) && w.hstats.restores_differing_from_default > before {
                    w.rep.nontrivial_key(&distinct_key(&doc, p));
                }
            }
        }
        // (b) long guided walks = many leave / re-enter cycles
        for _ in 0..4 {
            let len = 4 + rng.below(if args.thorough() { 30 } else { 14 });
            let path = guided_path(&f, &alpha, len, &mut rng);
            let before = w.hstats.restores_differing_from_default;
            if w.run_one(&doc, &f, &path, false) && w.hstats.restores_differing_from_default > before {
                w.rep.nontrivial_key(&distinct_key(&doc, &path));
            }
        }
    }
    w.flush_legality();
    let h = &w.hstats;
    w.rep.count("history_values_recorded", h.records);
    w.rep.count("restores_shallow", h.restores_shallow);
    w.rep.count("restores_deep", h.restores_deep);
    w.rep.count("restores_with_parallel_parent", h.restores_parallel_parent);
    w.rep.count("restores_differing_from_default_entry", h.restores_differing_from_default);
    w.rep.count("default_transitions_followed", h.defaults);
}
