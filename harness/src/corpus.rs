//! Fixed core corpus: hand-built documents that contain every shape the gates of the structural
//! checks ask for (so a gate can only fail if a probe got disconnected, never by bad luck).
use crate::docgen::*;

fn tr(uid: &str, ev: &str, targets: &[&str], dm: Dm) -> Trans {
    Trans {
        events: if ev.is_empty() { vec![] } else { ev.split(' ').map(|s| s.to_string()).collect() },
        cond: Cond::True,
        targets: targets.iter().map(|s| s.to_string()).collect(),
        internal: false,
        body: if dm == Dm::Null { vec![] } else { vec![Stmt::Mark(format!("t:{}", uid), vec![])] },
        uid: uid.to_string(),
    }
}

fn st(id: &str, kind: Kind, dm: Dm) -> Node {
    let mut n = Node::new(id, kind.clone());
    if dm != Dm::Null && !matches!(kind, Kind::History { .. }) {
        n.onentry.push(vec![Stmt::Mark(format!("en:{}:0", id), vec![])]);
        n.onexit.push(vec![Stmt::Mark(format!("ex:{}:0", id), vec![])]);
    }
    n
}

fn doc(name: &str, dm: Dm, top: Vec<Node>) -> Doc {
    let mut root = Node::new("scxml_root", Kind::State);
    root.children = top;
    Doc {
        name: name.to_string(),
        dm,
        late: false,
        root,
        vars: if dm == Dm::Null { vec![] } else { vec![("v0".into(), 0), ("v1".into(), 1), ("v2".into(), 2)] },
        arrays: vec![],
        script: vec![],
    }
}

fn p(events: &[&str]) -> Vec<String> {
    events.iter().map(|s| s.to_string()).collect()
}

/// parallel with two regions that reach their final states on e1 / e2; done.state.p → top-level final
pub fn parallel_done(dm: Dm) -> (Doc, Vec<Vec<String>>) {
    let mut a1 = st("a1", Kind::State, dm);
    a1.trans.push(tr("a1.0", "e1", &["fa"], dm));
    let mut fa = st("fa", Kind::Final, dm);
    if dm != Dm::Null {
        fa.extra_xml.push("<donedata><param name=\"p\" expr=\"v1 + 1\"/></donedata>".to_string());
    }
    let mut r1 = st("r1", Kind::State, dm);
    r1.children = vec![a1, fa];
    let mut b1 = st("b1", Kind::State, dm);
    b1.trans.push(tr("b1.0", "e2", &["fb"], dm));
    let fb = st("fb", Kind::Final, dm);
    let mut r2 = st("r2", Kind::State, dm);
    r2.children = vec![b1, fb];
    let mut par = st("p", Kind::Parallel, dm);
    par.children = vec![r1, r2];
    let mut s0 = st("s0", Kind::State, dm);
    s0.children = vec![par];
    s0.trans.push(tr("s0.0", "done.state.p", &["end"], dm));
    s0.trans.push(tr("s0.1", "e3", &["s0"], dm));
    if dm != Dm::Null {
        // the done event of region r1 carries the evaluated donedata
        let mut t = tr("s0.2", "done.state.r1", &[], dm);
        t.body.push(Stmt::Mark("dd".into(), vec![Expr::Raw("_event.data.p".into(), 2)]));
        s0.trans.push(t);
    }
    let end = st("end", Kind::Final, dm);
    (
        doc("core-parallel-done", dm, vec![s0, end]),
        vec![p(&["e1", "e2", "e4", "e4"]), p(&["e2", "e1", "e1"]), p(&["e1", "e3", "e2", "e1", "e4"]), p(&["e2", "e2"])],
    )
}

/// shallow and deep history below a compound parent and a history of a parallel
pub fn histories(dm: Dm) -> (Doc, Vec<Vec<String>>) {
    // compound parent c with children c1, c2(c21, c22) and histories hs (shallow), hd (deep)
    let mut c1 = st("c1", Kind::State, dm);
    c1.trans.push(tr("c1.0", "e1", &["c22"], dm));
    let mut c21 = st("c21", Kind::State, dm);
    c21.trans.push(tr("c21.0", "e1", &["c22"], dm));
    let mut c22 = st("c22", Kind::State, dm);
    c22.trans.push(tr("c22.0", "e1", &["c1"], dm));
    let mut c2 = st("c2", Kind::State, dm);
    c2.children = vec![c21, c22];
    let mut hs = st("hs", Kind::History { deep: false }, dm);
    hs.trans.push(Trans {
        body: if dm == Dm::Null { vec![] } else { vec![Stmt::Mark("hd:hs".into(), vec![])] },
        ..tr("hs.0", "", &["c1"], dm)
    });
    let mut hd = st("hd", Kind::History { deep: true }, dm);
    hd.trans.push(Trans {
        body: if dm == Dm::Null { vec![] } else { vec![Stmt::Mark("hd:hd".into(), vec![])] },
        ..tr("hd.0", "", &["c1"], dm)
    });
    let mut c = st("c", Kind::State, dm);
    c.children = vec![hs, c1, c2, hd];
    c.trans.push(tr("c.0", "e2", &["out"], dm));
    // parallel q with history hq
    let mut q11 = st("q11", Kind::State, dm);
    q11.trans.push(tr("q11.0", "e1", &["q12"], dm));
    let q12 = st("q12", Kind::State, dm);
    let mut q1 = st("q1", Kind::State, dm);
    q1.children = vec![q11, q12];
    let mut q21 = st("q21", Kind::State, dm);
    q21.trans.push(tr("q21.0", "e1", &["q22"], dm));
    let q22 = st("q22", Kind::State, dm);
    let mut q2 = st("q2", Kind::State, dm);
    q2.children = vec![q21, q22];
    let mut hq = st("hq", Kind::History { deep: true }, dm);
    hq.trans.push(Trans {
        body: if dm == Dm::Null { vec![] } else { vec![Stmt::Mark("hd:hq".into(), vec![])] },
        ..tr("hq.0", "", &["q1"], dm)
    });
    let mut q = st("q", Kind::Parallel, dm);
    q.children = vec![q1, q2, hq];
    q.trans.push(tr("q.0", "e2", &["out"], dm));
    let mut out = st("out", Kind::State, dm);
    out.trans.push(tr("out.0", "e3", &["hs"], dm));
    out.trans.push(tr("out.1", "e4", &["hd"], dm));
    out.trans.push(tr("out.2", "e1", &["hq"], dm));
    out.trans.push(tr("out.3", "e2", &["c"], dm));
    (
        doc("core-histories", dm, vec![c, q, out]),
        vec![
            p(&["e2", "e3", "e1", "e2", "e3", "e2", "e4"]),
            p(&["e1", "e2", "e4", "e1", "e2", "e3"]),
            p(&["e1", "e1", "e2", "e4", "e2", "e3"]),
            p(&["e2", "e1", "e1", "e2", "e1", "e2", "e1"]),
            p(&["e2", "e4", "e2", "e2", "e1", "e2", "e3"]),
        ],
    )
}

/// parallel with transitions in both regions on the same event and a pre-empting transition
pub fn parallel_conflict(dm: Dm) -> (Doc, Vec<Vec<String>>) {
    let mut a1 = st("a1", Kind::State, dm);
    a1.trans.push(tr("a1.0", "e1", &["a2"], dm));
    a1.trans.push(tr("a1.1", "e2", &["a2"], dm));
    let mut a2 = st("a2", Kind::State, dm);
    a2.trans.push(tr("a2.0", "e1", &["a1"], dm));
    let mut r1 = st("r1", Kind::State, dm);
    r1.children = vec![a1, a2];
    let mut b1 = st("b1", Kind::State, dm);
    b1.trans.push(tr("b1.0", "e1", &["b2"], dm));
    b1.trans.push(tr("b1.1", "e2", &["other"], dm));
    b1.trans.push(tr("b1.2", "e3", &["a2", "b2"], dm));
    let mut b2 = st("b2", Kind::State, dm);
    b2.trans.push(tr("b2.0", "e1", &["b1"], dm));
    let mut r2 = st("r2", Kind::State, dm);
    r2.children = vec![b1, b2];
    let mut par = st("p", Kind::Parallel, dm);
    par.children = vec![r1, r2];
    par.trans.push(tr("p.0", "e4", &["other"], dm));
    let mut other = st("other", Kind::State, dm);
    other.trans.push(tr("other.0", "e1", &["p"], dm));
    other.trans.push(tr("other.1", "e3", &["a2", "b2"], dm));
    (
        doc("core-parallel-conflict", dm, vec![par, other]),
        vec![p(&["e1", "e1", "e2", "e1", "e3", "e4"]), p(&["e2", "e3", "e1", "e4", "e1"]), p(&["e3", "e1", "e2"])],
    )
}

pub fn all(dm: Dm) -> Vec<(Doc, Vec<Vec<String>>)> {
    vec![parallel_done(dm), histories(dm), parallel_conflict(dm), prefix_names(dm)]
}
/// state ids that are string prefixes of one another (`a` / `ab`), asked for by `In()` guards in a sibling region:
/// `In('a')` must be false while only `ab` is active, and the other way round
pub fn prefix_names(dm: Dm) -> (Doc, Vec<Vec<String>>) {
    let mut a = st("a", Kind::State, dm);
    a.trans.push(tr("a.0", "e1", &["ab"], dm));
    let mut ab = st("ab", Kind::State, dm);
    ab.trans.push(tr("ab.0", "e1", &["a"], dm));
    let mut r = st("r", Kind::State, dm);
    r.children = vec![a, ab];
    let mut w = st("w", Kind::State, dm);
    w.trans.push(Trans { cond: Cond::In("a".into()), ..tr("w.0", "e2", &[], dm) });
    w.trans.push(Trans { cond: Cond::In("ab".into()), ..tr("w.1", "e2", &[], dm) });
    // (the null data model knows the In() predicate only: no operators there)
    let c2 = if dm == Dm::Null { Cond::In("ab".into()) } else { Cond::And(Box::new(Cond::Not(Box::new(Cond::In("a".into())))), Box::new(Cond::In("r".into()))) };
    w.trans.push(Trans { cond: c2, ..tr("w.2", "e3", &["w2"], dm) });
    let mut w2 = st("w2", Kind::State, dm);
    let c3 = if dm == Dm::Null { Cond::In("a".into()) } else { Cond::Not(Box::new(Cond::In("ab".into()))) };
    w2.trans.push(Trans { cond: c3, ..tr("w2.0", "e3", &["w"], dm) });
    let mut q = st("q", Kind::State, dm);
    q.children = vec![w, w2];
    let mut par = st("pp", Kind::Parallel, dm);
    par.children = vec![r, q];
    (
        doc("core-prefix-names", dm, vec![par]),
        vec![p(&["e2", "e1", "e2", "e3", "e3", "e1", "e3", "e2"]), p(&["e3", "e1", "e3", "e1", "e2", "e3"]), p(&["e1", "e2", "e1", "e2"])],
    )
}


/// Random tree of nested parallels whose leaf regions reach a final child on their own event:
/// regions are compound leaves, nested parallels, or compound states wrapping a parallel.
/// Every completion order of the leaves is a different question for the done-event rule.
pub fn done_tree(rng: &mut crate::rng::Rng, dm: Dm, idx: usize) -> (Doc, Vec<Vec<String>>) {
    struct B<'a> {
        rng: &'a mut crate::rng::Rng,
        dm: Dm,
        n: usize,
        events: Vec<String>,
        containers: Vec<String>,
    }
    impl<'a> B<'a> {
        fn leaf(&mut self) -> Node {
            self.n += 1;
            let k = self.n;
            let ev = format!("g{}", k);
            self.events.push(ev.clone());
            let rid = format!("r{}", k);
            let mut a = st(&format!("r{}a", k), Kind::State, self.dm);
            let f = st(&format!("r{}f", k), Kind::Final, self.dm);
            let mut r = st(&rid, Kind::State, self.dm);
            if self.rng.chance(1, 3) {
                // two steps to the final state
                let mut b = st(&format!("r{}b", k), Kind::State, self.dm);
                let ev2 = format!("h{}", k);
                self.events.push(ev2.clone());
                a.trans.push(tr(&format!("r{}a.0", k), &ev2, &[&format!("r{}b", k)], self.dm));
                b.trans.push(tr(&format!("r{}b.0", k), &ev, &[&format!("r{}f", k)], self.dm));
                r.children = vec![a, b, f];
            } else {
                a.trans.push(tr(&format!("r{}a.0", k), &ev, &[&format!("r{}f", k)], self.dm));
                r.children = vec![a, f];
            }
            self.containers.push(rid);
            r
        }
        fn par(&mut self, depth: usize) -> Node {
            self.n += 1;
            let id = format!("p{}", self.n);
            let mut p = st(&id, Kind::Parallel, self.dm);
            let regions = 2 + self.rng.below(2);
            for _ in 0..regions {
                let c = if depth < 3 && self.rng.chance(3, 8) {
                    if self.rng.chance(1, 2) {
                        self.par(depth + 1)
                    } else {
                        // compound region wrapping a parallel: final child on the parallel's done event
                        self.n += 1;
                        let k = self.n;
                        let inner = self.par(depth + 1);
                        let mut w = st(&format!("w{}", k), Kind::State, self.dm);
                        let mut hold = st(&format!("w{}h", k), Kind::State, self.dm);
                        hold.trans.push(tr(&format!("w{}h.0", k), &format!("done.state.{}", inner.id), &[&format!("w{}f", k)], self.dm));
                        hold.children = vec![inner];
                        let f = st(&format!("w{}f", k), Kind::Final, self.dm);
                        w.children = vec![hold, f];
                        self.containers.push(format!("w{}", k));
                        w
                    }
                } else {
                    self.leaf()
                };
                p.children.push(c);
            }
            self.containers.push(id);
            p
        }
    }
    let mut b = B { rng, dm, n: 0, events: vec![], containers: vec![] };
    let top = b.par(1);
    let top_id = top.id.clone();
    let mut s0 = st("s0", Kind::State, dm);
    s0.children = vec![top];
    let mut k = 0;
    let ends = b.rng.chance(1, 2);
    if ends {
        s0.trans.push(tr(&format!("s0.{}", k), &format!("done.state.{}", top_id), &["end"], dm));
        k += 1;
    }
    // every done event is observed (targetless) at the top
    for c in b.containers.clone() {
        if ends && c == top_id {
            continue;
        }
        s0.trans.push(tr(&format!("s0.{}", k), &format!("done.state.{}", c), &[], dm));
        k += 1;
    }
    let end = st("end", Kind::Final, dm);
    let d = doc(&format!("done-tree-{}", idx), dm, vec![s0, end]);
    let mut paths = Vec::new();
    for _ in 0..4 {
        let mut evs = b.events.clone();
        b.rng.shuffle(&mut evs);
        // h-events must precede their g-event to make progress; repeat the whole list twice so
        // every leaf finishes in most orders, then two events that stay queued
        let mut path = evs.clone();
        b.rng.shuffle(&mut evs);
        path.extend(evs);
        path.truncate(24);
        paths.push(path);
    }
    (d, paths)
}

/// Random tree of compound states and parallels below a compound `w`, with shallow and deep
/// histories at random levels; `out` re-enters through each of them.  Leaves cycle through their
/// children on their own event so that any combination of non-initial children can be recorded.
pub fn history_tree(rng: &mut crate::rng::Rng, dm: Dm, idx: usize) -> (Doc, Vec<Vec<String>>) {
    struct B<'a> {
        rng: &'a mut crate::rng::Rng,
        dm: Dm,
        n: usize,
        moves: Vec<String>,
        hist: Vec<String>,
    }
    impl<'a> B<'a> {
        fn hist_for(&mut self, parent: &mut Node, default_target: &str, force: bool) {
            if force || self.rng.chance(1, 3) {
                self.n += 1;
                let id = format!("h{}", self.n);
                let deep = self.rng.chance(1, 2);
                let mut h = st(&id, Kind::History { deep }, self.dm);
                h.trans.push(Trans {
                    body: if self.dm == Dm::Null { vec![] } else { vec![Stmt::Mark(format!("hd:{}", id), vec![])] },
                    ..tr(&format!("{}.0", id), "", &[default_target], self.dm)
                });
                // histories may stand before or after their siblings
                if self.rng.chance(1, 2) {
                    parent.children.insert(0, h);
                } else {
                    parent.children.push(h);
                }
                // the parent's own initial specification may point at its history (W3C test 579 idiom)
                if parent.kind == Kind::State && self.rng.chance(1, 3) {
                    let as_element = self.rng.chance(1, 2);
                    parent.initial = Some(Initial {
                        targets: vec![id.clone()],
                        as_element,
                        body: if as_element && self.dm != Dm::Null { vec![Stmt::Mark(format!("i:{}", parent.id), vec![])] } else { vec![] },
                    });
                }
                self.hist.push(id);
            }
        }
        fn leaf(&mut self) -> Node {
            self.n += 1;
            let k = self.n;
            let ev = format!("m{}", k);
            self.moves.push(ev.clone());
            let cnt = 2 + self.rng.below(2);
            let mut c = st(&format!("c{}", k), Kind::State, self.dm);
            for j in 0..cnt {
                let mut a = st(&format!("c{}x{}", k, j), Kind::State, self.dm);
                a.trans.push(tr(&format!("c{}x{}.0", k, j), &ev, &[&format!("c{}x{}", k, (j + 1) % cnt)], self.dm));
                c.children.push(a);
            }
            let first = c.children[0].id.clone();
            self.hist_for(&mut c, &first, false);
            c
        }
        fn node(&mut self, depth: usize) -> Node {
            let r = self.rng.below(8);
            if depth >= 4 || self.n >= 9 || r < 3 {
                self.leaf()
            } else if r < 6 {
                self.n += 1;
                let mut p = st(&format!("p{}", self.n), Kind::Parallel, self.dm);
                for _ in 0..(2 + self.rng.below(2)) {
                    let c = self.node(depth + 1);
                    p.children.push(c);
                }
                p
            } else {
                // compound wrapper: [subtree, atomic sibling], toggled by its own event
                self.n += 1;
                let k = self.n;
                let ev = format!("n{}", k);
                self.moves.push(ev.clone());
                let mut inner = self.node(depth + 1);
                let sib_id = format!("d{}s", k);
                let k_inner = inner.trans.len();
                inner.trans.push(tr(&format!("{}.{}", inner.id, k_inner), &ev, &[&sib_id], self.dm));
                let mut sib = st(&sib_id, Kind::State, self.dm);
                sib.trans.push(tr(&format!("{}.0", sib_id), &ev, &[&inner.id], self.dm));
                let mut d = st(&format!("d{}", k), Kind::State, self.dm);
                let first = inner.id.clone();
                d.children = vec![inner, sib];
                self.hist_for(&mut d, &first, false);
                d
            }
        }
    }
    let mut b = B { rng, dm, n: 0, moves: vec![], hist: vec![] };
    let inner = b.node(1);
    let inner_id = inner.id.clone();
    let mut w = st("w", Kind::State, dm);
    let alt = st("walt", Kind::State, dm);
    w.children = vec![inner, alt];
    w.trans.push(tr("w.0", "x", &["out"], dm));
    w.trans.push(tr("w.1", "alt", &["walt"], dm));
    b.hist_for(&mut w, &inner_id, true);
    let mut out = st("out", Kind::State, dm);
    out.trans.push(tr("out.0", "direct", &["w"], dm));
    let mut backs = vec![];
    for (j, h) in b.hist.clone().iter().enumerate() {
        let ev = format!("back{}", j);
        out.trans.push(tr(&format!("out.{}", j + 1), &ev, &[h], dm));
        backs.push(ev);
    }
    // initial state is w (first child)
    let d = doc(&format!("history-tree-{}", idx), dm, vec![w, out]);
    let mut paths = Vec::new();
    for _ in 0..5 {
        let mut path = Vec::new();
        for _round in 0..(2 + b.rng.below(3)) {
            for _ in 0..b.rng.below(5) {
                let m = b.moves[b.rng.below(b.moves.len())].clone();
                path.push(m);
            }
            if b.rng.chance(1, 6) {
                path.push("alt".to_string());
            }
            path.push("x".to_string());
            if b.rng.chance(1, 8) {
                path.push("direct".to_string());
            } else {
                path.push(backs[b.rng.below(backs.len())].clone());
            }
        }
        path.truncate(30);
        paths.push(path);
    }
    (d, paths)
}

/// Eventless transitions guarded by data that targetless transitions (in the same state, in a
/// sibling region, or through a raised event) change without touching the configuration.
pub fn guarded_eventless(rng: &mut crate::rng::Rng, idx: usize) -> (Doc, Vec<Vec<String>>) {
    let dm = if idx % 2 == 0 { Dm::Rfsm } else if cfg!(feature = "full") { Dm::Ecma } else { Dm::Rfsm };
    let k1 = 1 + rng.below(3) as i64;
    let k2 = 1 + rng.below(2) as i64;
    let add = |uid: &str, ev: &str, delta: i64| -> Trans {
        let mut t = tr(uid, ev, &[], dm);
        t.body.push(Stmt::Assign("v0".into(), Expr::Add("v0".into(), delta)));
        t
    };
    let mut a = st("a", Kind::State, dm);
    a.trans.push(add("a.0", "inc", 1));
    a.trans.push(add("a.1", "dec", -1));
    let mut g = tr("a.2", "", &["b"], dm);
    g.cond = Cond::Cmp("v0".into(), CmpOp::Ge, k1);
    a.trans.push(g);
    if rng.chance(1, 2) {
        // a compound variant: the atomic states change on `tog`, the guard does not depend on them
        let mut a1 = st("a1", Kind::State, dm);
        a1.trans.push(tr("a1.0", "tog", &["a2"], dm));
        let mut a2 = st("a2", Kind::State, dm);
        a2.trans.push(tr("a2.0", "tog", &["a1"], dm));
        a.children = vec![a1, a2];
    }
    let mut b = st("b", Kind::State, dm);
    b.trans.push(add("b.0", "inc", 1));
    let mut g2 = tr("b.1", "", &["c"], dm);
    g2.cond = Cond::Cmp("v0".into(), CmpOp::Ge, k1 + k2);
    b.trans.push(g2);
    let mut reset = tr("b.2", "reset", &["a"], dm);
    reset.body.push(Stmt::Assign("v0".into(), Expr::Const(0)));
    b.trans.push(reset);
    let mut ri = tr("b.3", "raiseinc", &[], dm);
    ri.body.push(Stmt::Raise("bump".into()));
    b.trans.push(ri);
    b.trans.push(add("b.4", "bump", 1));
    let mut c = st("c", Kind::State, dm);
    let mut reset2 = tr("c.0", "reset", &["a"], dm);
    reset2.body.push(Stmt::Assign("v0".into(), Expr::Const(0)));
    c.trans.push(reset2);
    c.trans.push(tr("c.1", "probe", &[], dm));
    let top: Vec<Node> = if rng.chance(1, 2) {
        // the counter may also be bumped from a sibling region
        let mut q = st("q", Kind::State, dm);
        q.trans.push(add("q.0", "inc2", 1));
        let mut r2 = st("r2", Kind::State, dm);
        r2.children = vec![q];
        let mut r1 = st("r1", Kind::State, dm);
        r1.children = vec![a, b, c];
        let mut p = st("p", Kind::Parallel, dm);
        p.children = vec![r1, r2];
        vec![p]
    } else {
        vec![a, b, c]
    };
    let d = doc(&format!("guarded-eventless-{}", idx), dm, top);
    let alphabet = ["inc", "inc", "inc", "dec", "probe", "reset", "raiseinc", "inc2", "tog"];
    let mut paths = Vec::new();
    for _ in 0..5 {
        let n = 5 + rng.below(10);
        paths.push((0..n).map(|_| alphabet[rng.below(alphabet.len())].to_string()).collect());
    }
    (d, paths)
}

/// Nested parallels in which the *same* event is handled at many places at once: on atomic states, on their
/// compound / parallel ancestors and in sibling regions, with targets inside the own region, in another region,
/// outside the whole parallel or none.  One event then enables three and more transitions whose exit sets
/// intersect in chains (a pre-empts b, c conflicts with a but not with b, …) - the inputs of the conflict
/// resolution that small random documents rarely produce.
pub fn conflict_tree(rng: &mut crate::rng::Rng, dm: Dm, idx: usize) -> (Doc, Vec<Vec<String>>) {
    struct B<'a> {
        rng: &'a mut crate::rng::Rng,
        dm: Dm,
        n: usize,
        atoms: Vec<String>,
        all: Vec<String>,
    }
    impl<'a> B<'a> {
        fn region(&mut self, depth: usize) -> Node {
            self.n += 1;
            let k = self.n;
            let id = format!("c{}", k);
            let mut c = st(&id, Kind::State, self.dm);
            let kids = 2 + self.rng.below(2);
            for j in 0..kids {
                if j == 0 && depth < 3 && self.rng.chance(2, 5) {
                    c.children.push(self.par(depth + 1));
                } else {
                    let aid = format!("c{}a{}", k, j);
                    self.atoms.push(aid.clone());
                    self.all.push(aid.clone());
                    c.children.push(st(&aid, Kind::State, self.dm));
                }
            }
            self.all.push(id);
            c
        }
        fn par(&mut self, depth: usize) -> Node {
            self.n += 1;
            let id = format!("q{}", self.n);
            let mut p = st(&id, Kind::Parallel, self.dm);
            for _ in 0..2 + self.rng.below(2) {
                let r = self.region(depth);
                p.children.push(r);
            }
            self.all.push(id);
            p
        }
    }
    let mut b = B { rng, dm, n: 0, atoms: vec![], all: vec![] };
    let mut top = b.par(1);
    let top_id = top.id.clone();
    // transitions on the shared events
    let all = b.all.clone();
    let atoms = b.atoms.clone();
    fn decorate(n: &mut Node, rng: &mut crate::rng::Rng, all: &[String], atoms: &[String], dm: Dm) {
        let mut k = 0;
        for ev in ["e1", "e2"] {
            if rng.chance(3, 5) {
                let targets: Vec<String> = match rng.below(6) {
                    0 => vec![],
                    1 => vec!["out".to_string()],
                    2 | 3 => vec![atoms[rng.below(atoms.len())].clone()],
                    _ => vec![all[rng.below(all.len())].clone()],
                };
                let tv: Vec<&str> = targets.iter().map(|s| s.as_str()).collect();
                let mut t = tr(&format!("{}.{}", n.id, k), ev, &tv, dm);
                t.internal = rng.chance(1, 6);
                n.trans.push(t);
                k += 1;
            }
        }
        for c in &mut n.children {
            decorate(c, rng, all, atoms, dm);
        }
    }
    decorate(&mut top, b.rng, &all, &atoms, dm);
    let mut out = st("out", Kind::State, dm);
    out.trans.push(tr("out.0", "e3", &[&top_id], dm));
    out.trans.push(tr("out.1", "e1", &[&atoms[b.rng.below(atoms.len())]], dm));
    let d = doc(&format!("conflict-tree-{}", idx), dm, vec![top, out]);
    let mut paths = Vec::new();
    for _ in 0..6 {
        let len = 3 + b.rng.below(8);
        let path: Vec<String> = (0..len).map(|_| ["e1", "e2", "e3", "e1"][b.rng.below(4)].to_string()).collect();
        paths.push(path);
    }
    (d, paths)
}
