//! Model-free trace monitors (they use the document tree, never the reference interpreter):
//! queue discipline (C03), history snapshot (C06), done events / termination (C07).

use crate::docgen::Kind;
use crate::rec::Ev;
use crate::refsim::{Flat, CANCEL, FT};
use crate::session::RunResult;
use std::collections::{BTreeMap, BTreeSet, HashMap, VecDeque};

type Viol = (String, String);

fn mine<'a>(res: &'a RunResult) -> Vec<&'a crate::rec::Entry> {
    let session_tid = res.log.iter().find(|e| e.tracer == res.tracer).map(|e| e.tid);
    res.log
        .iter()
        .filter(|e| e.tracer == res.tracer || (e.tracer == 0 && (Some(e.tid) == session_tid || matches!(&e.ev, Ev::Trace(t) if t.starts_with("SEND ")))))
        .collect()
}

#[derive(Default, Debug)]
pub struct QueueStats {
    pub idle_queue_samples: u64,
    pub internal_events_raised: u64,
    pub internal_events_consumed: u64,
    pub external_events_consumed: u64,
    pub self_sent_external: u64,
    pub max_pending_internal: u64,
    /// an internal event was raised while an external event was already waiting and >= 2 internal events were pending
    pub nontrivial: bool,
}

fn is_unique_raise(name: &str) -> bool {
    // generator's unique names: r<k>.u<n> / x<k>.u<n>
    name.contains(".u") && (name.starts_with('r') || name.starts_with('x'))
}

/// C03: every raised internal event is consumed exactly once, in raise order, before the next
/// external event; external events are consumed in arrival order, each exactly once.
pub fn queue_discipline(res: &RunResult, st: &mut QueueStats) -> Result<(), Viol> {
    let mut raised: Vec<String> = Vec::new();
    let mut consumed = 0usize;
    let mut xq: VecDeque<String> = VecDeque::new();
    for e in mine(res) {
        match &e.ev {
            Ev::Trace(t) if t.starts_with("SEND ") => xq.push_back(t[5..].to_string()),
            Ev::AtIdle { internal_queue, .. } => {
                // invariant at the quiescent point (model-free, read from the session's own queue): the session
                // may only wait for an external event when its internal queue is empty
                st.idle_queue_samples += 1;
                if *internal_queue > 0 {
                    return Err((
                        "internal-events-pending-at-external-dequeue".into(),
                        format!("the session waits for an external event while {} event(s) are still in its internal queue", internal_queue),
                    ));
                }
            }
            Ev::Mark { tag, .. } => {
                if let Some(n) = tag.strip_prefix("q:") {
                    raised.push(n.to_string());
                    st.internal_events_raised += 1;
                    let pending = (raised.len() - consumed) as u64;
                    st.max_pending_internal = st.max_pending_internal.max(pending);
                    if pending >= 2 && !xq.is_empty() {
                        st.nontrivial = true;
                    }
                } else if let Some(n) = tag.strip_prefix("xq:") {
                    xq.push_back(n.to_string());
                    st.self_sent_external += 1;
                }
            }
            Ev::IRecv(ev) => {
                if is_unique_raise(&ev.name) {
                    match raised.get(consumed) {
                        Some(n) if *n == ev.name => {
                            consumed += 1;
                            st.internal_events_consumed += 1;
                        }
                        Some(n) => {
                            let kind = if raised[..consumed].contains(&ev.name) { "internal-event-consumed-twice" } else { "internal-events-out-of-order" };
                            return Err((
                                kind.to_string(),
                                format!("internal event {} dequeued, but the oldest unconsumed raised event is {}", ev.name, n),
                            ));
                        }
                        None => {
                            return Err((
                                "internal-event-consumed-twice".into(),
                                format!("internal event {} dequeued although every raised event was already consumed", ev.name),
                            ))
                        }
                    }
                }
            }
            Ev::XRecv(ev) => {
                if consumed != raised.len() {
                    return Err((
                        "external-event-before-internal-queue-empty".into(),
                        format!(
                            "external event {} dequeued while raised event {} was still unprocessed",
                            ev.name, raised[consumed]
                        ),
                    ));
                }
                if ev.name == CANCEL {
                    continue;
                }
                st.external_events_consumed += 1;
                match xq.pop_front() {
                    Some(n) if n == ev.name => {}
                    Some(n) => {
                        return Err((
                            "external-events-out-of-order".into(),
                            format!("external event {} dequeued, but {} was sent earlier and not yet consumed", ev.name, n),
                        ))
                    }
                    None => {
                        return Err((
                            "external-event-consumed-twice".into(),
                            format!("external event {} dequeued although nothing was pending", ev.name),
                        ))
                    }
                }
            }
            _ => {}
        }
    }
    Ok(())
}

// ---------------------------------------------------------------------------------------------

#[derive(Clone, Debug)]
enum StepEv {
    Enter(usize),
    Exit(usize),
    Mark(String),
    ISend(String),
}

struct Step {
    uids: Vec<String>,
    before: BTreeSet<usize>,
    seq: Vec<StepEv>,
}

/// splits the session's log into the initial entry (uids empty) and microsteps
fn steps(f: &Flat, res: &RunResult) -> (Vec<Step>, Vec<(usize, String)>) {
    let info = res.info.as_ref().unwrap();
    let mut out: Vec<Step> = Vec::new();
    let mut shadow: BTreeSet<usize> = BTreeSet::new();
    let mut cur = Step {
        uids: vec![],
        before: BTreeSet::new(),
        seq: vec![],
    };
    // events between steps: (index of the step they follow, text) for X / I / post-termination marks
    let mut between: Vec<(usize, String)> = Vec::new();
    let mut in_step = true; // the initial entry counts as step 0 until the first idle / dequeue
    for e in mine(res) {
        match &e.ev {
            Ev::Enabled(ids) if !ids.is_empty() => {
                if in_step {
                    out.push(cur);
                }
                cur = Step {
                    uids: ids.iter().filter_map(|i| info.trans_uid.get(i).cloned()).collect(),
                    before: shadow.clone(),
                    seq: vec![],
                };
                in_step = true;
            }
            Ev::MOut(m) if m == "microstep" => {
                if in_step {
                    out.push(std::mem::replace(
                        &mut cur,
                        Step {
                            uids: vec![],
                            before: BTreeSet::new(),
                            seq: vec![],
                        },
                    ));
                    in_step = false;
                }
            }
            Ev::MIn(m) if (m == "mainEventLoop" || m == "externalQueue.dequeue" || m == "internalQueue.dequeue" || m == "selectEventlessTransitions") && in_step && cur.uids.is_empty() => {
                // end of the initial entry
                out.push(std::mem::replace(
                    &mut cur,
                    Step {
                        uids: vec![],
                        before: BTreeSet::new(),
                        seq: vec![],
                    },
                ));
                in_step = false;
            }
            Ev::Enter(_, n) => {
                if let Some(&i) = f.by_id.get(n) {
                    shadow.insert(i);
                    if in_step {
                        cur.seq.push(StepEv::Enter(i));
                    }
                }
            }
            Ev::Exit(_, n) => {
                if let Some(&i) = f.by_id.get(n) {
                    shadow.remove(&i);
                    if in_step {
                        cur.seq.push(StepEv::Exit(i));
                    }
                }
            }
            Ev::Mark { tag, .. } => {
                if in_step {
                    cur.seq.push(StepEv::Mark(tag.clone()));
                } else {
                    between.push((out.len(), format!("M {}", tag)));
                }
            }
            Ev::ISend(ev) => {
                if in_step {
                    cur.seq.push(StepEv::ISend(ev.name.clone()));
                }
            }
            Ev::XRecv(ev) => between.push((out.len(), format!("X {}", ev.name))),
            Ev::IRecv(ev) => between.push((out.len(), format!("I {}", ev.name))),
            _ => {}
        }
    }
    if in_step && !cur.seq.is_empty() {
        out.push(cur);
    }
    (out, between)
}

fn trans_by_uid(f: &Flat) -> HashMap<String, &FT> {
    let mut m = HashMap::new();
    for s in &f.s {
        for t in &s.trans {
            m.insert(t.uid.clone(), t);
        }
    }
    m
}

#[derive(Default, Debug)]
pub struct HistoryStats {
    pub restores_shallow: u64,
    pub restores_deep: u64,
    pub restores_parallel_parent: u64,
    pub restores_differing_from_default: u64,
    pub defaults: u64,
    pub records: u64,
}

/// C06: history snapshot monitor
pub fn history(f: &Flat, res: &RunResult, st: &mut HistoryStats, content: bool) -> Result<(), Viol> {
    let (steps, _) = steps(f, res);
    let tmap = trans_by_uid(f);
    let mut rec: BTreeMap<usize, BTreeSet<usize>> = BTreeMap::new();
    let mut shadow: BTreeSet<usize> = BTreeSet::new();
    let name = |i: usize| f.s[i].id.clone();
    let names = |c: &BTreeSet<usize>| c.iter().map(|&i| f.s[i].id.clone()).collect::<Vec<_>>().join(",");
    for step in &steps {
        // apply events
        let mut exited = Vec::new();
        let mut entered = Vec::new();
        for ev in &step.seq {
            match ev {
                StepEv::Exit(i) => {
                    shadow.remove(i);
                    exited.push(*i);
                }
                StepEv::Enter(i) => {
                    shadow.insert(*i);
                    entered.push(*i);
                }
                _ => {}
            }
        }
        // what this step's exits record (from the configuration before the step)
        for &p in &exited {
            for &h in &f.s[p].histories {
                let deep = matches!(f.s[h].kind, Kind::History { deep: true });
                let v: BTreeSet<usize> = if deep {
                    step.before.iter().cloned().filter(|&x| f.is_atomic(x) && f.desc(x, p)).collect()
                } else {
                    step.before.iter().cloned().filter(|&x| f.s[x].parent == Some(p)).collect()
                };
                rec.insert(h, v);
                st.records += 1;
            }
        }
        // history targets of the transitions taken
        let mut justified_defaults: Vec<usize> = Vec::new();
        // (history, reached only through its parent's own initial specification)
        let mut candidates: Vec<(usize, bool)> = Vec::new();
        for uid in &step.uids {
            if let Some(t) = tmap.get(uid) {
                for &h in &t.targets {
                    if f.is_history(h) {
                        candidates.push((h, false));
                    }
                }
            }
        }
        // a state entered in this step whose initial specification names its history child: whether the
        // initial was followed (default entry) or not (entered as ancestor of an explicit target) is not
        // decided here, so absence of the default content is left to the reference comparison
        for &p in &entered {
            if let Some((targets, _)) = &f.s[p].initial {
                for &h in targets {
                    if f.is_history(h) && !candidates.iter().any(|(x, _)| *x == h) {
                        candidates.push((h, true));
                    }
                }
            }
        }
        {
            for &(h, via_initial) in &candidates {
                let p = f.s[h].parent.unwrap();
                let deep = matches!(f.s[h].kind, Kind::History { deep: true });
                let hd_count = step.seq.iter().filter(|e| matches!(e, StepEv::Mark(m) if *m == format!("hd:{}", name(h)))).count();
                let hd_ran = hd_count > 0;
                if via_initial && !hd_ran && rec.get(&h).is_none() {
                    // initial not followed, or default content missing: the reference decides
                    continue;
                }
                match rec.get(&h) {
                    Some(_) if via_initial => {
                        if content && hd_count != 0 {
                            return Err((
                                "history-default-content-although-recorded".into(),
                                format!("history {} has a recorded value but its default transition content ran", name(h)),
                            ));
                        }
                    }
                    Some(r) => {
                        if deep {
                            st.restores_deep += 1;
                        } else {
                            st.restores_shallow += 1;
                        }
                        if f.is_parallel(p) {
                            st.restores_parallel_parent += 1;
                        }
                        if content && hd_count != 0 {
                            return Err((
                                "history-default-content-although-recorded".into(),
                                format!("history {} has the recorded value {{{}}} but its default transition content ran", name(h), names(r)),
                            ));
                        }
                        for &x in r {
                            if !shadow.contains(&x) {
                                return Err((
                                    "history-recorded-state-not-restored".into(),
                                    format!(
                                        "history {} recorded {{{}}} when {} was left, but after the transition to it {} is not active (configuration {{{}}})",
                                        name(h),
                                        names(r),
                                        name(p),
                                        name(x),
                                        names(&shadow)
                                    ),
                                ));
                            }
                        }
                        if !deep {
                            let active_kids: BTreeSet<usize> = f.s[p].children.iter().cloned().filter(|c| shadow.contains(c)).collect();
                            if active_kids != *r {
                                return Err((
                                    "shallow-history-restores-other-children".into(),
                                    format!(
                                        "shallow history {} recorded {{{}}} but the active children of {} are {{{}}}",
                                        name(h),
                                        names(r),
                                        name(p),
                                        names(&active_kids)
                                    ),
                                ));
                            }
                        } else {
                            // without parallel states below p the active atomic descendants are exactly the record
                            let has_parallel = f.s.iter().enumerate().any(|(i, s)| s.kind == Kind::Parallel && (i == p || f.desc(i, p)));
                            if !has_parallel {
                                let atoms: BTreeSet<usize> = shadow.iter().cloned().filter(|&x| f.is_atomic(x) && f.desc(x, p)).collect();
                                if atoms != *r {
                                    return Err((
                                        "deep-history-restores-other-descendants".into(),
                                        format!("deep history {} recorded {{{}}} but the active atomic descendants of {} are {{{}}}", name(h), names(r), name(p), names(&atoms)),
                                    ));
                                }
                            }
                        }
                        // does the restored value differ from what the default transition would give?
                        let dflt: BTreeSet<usize> = f.s[h].trans[0].targets.iter().cloned().collect();
                        if !dflt.iter().all(|d| r.contains(d) || r.iter().any(|x| f.desc(*x, *d))) {
                            st.restores_differing_from_default += 1;
                        }
                    }
                    None => {
                        st.defaults += 1;
                        justified_defaults.push(h);
                        // The default content runs "as part of entering the parent state": once if the
                        // parent is entered in this microstep, not at all if the parent stays active
                        // (transition from inside the parent).
                        let want = if entered.contains(&p) { 1 } else { 0 };
                        if content && hd_count != want {
                            return Err((
                                "history-default-content-count".into(),
                                format!(
                                    "history {} has no recorded value; its default transition content ran {} times in the microstep (parent {} entered: {})",
                                    name(h),
                                    hd_count,
                                    name(p),
                                    want == 1
                                ),
                            ));
                        }
                        if content && want == 1 {
                            // position: after the parent's onentry marks, before any child's
                            let pos_hd = step.seq.iter().position(|e| matches!(e, StepEv::Mark(m) if *m == format!("hd:{}", name(h)))).unwrap();
                            let last_parent_entry = step
                                .seq
                                .iter()
                                .rposition(|e| matches!(e, StepEv::Mark(m) if m.starts_with(&format!("en:{}:", name(p)))));
                            if entered.contains(&p) {
                                if let Some(lp) = last_parent_entry {
                                    if lp > pos_hd {
                                        return Err((
                                            "history-default-content-before-parent-onentry".into(),
                                            format!("default content of history {} ran before the onentry content of {}", name(h), name(p)),
                                        ));
                                    }
                                }
                            }
                            let pos_parent_enter = step.seq.iter().position(|e| matches!(e, StepEv::Enter(i) if *i == p));
                            if let Some(pe) = pos_parent_enter {
                                // no descendant of p may be entered between p's entry and the default content
                                for e in &step.seq[pe + 1..pos_hd] {
                                    if let StepEv::Enter(i) = e {
                                        if f.desc(*i, p) {
                                            return Err((
                                                "history-default-content-after-child-entry".into(),
                                                format!("default content of history {} ran after {} (inside {}) was entered", name(h), name(*i), name(p)),
                                            ));
                                        }
                                    }
                                }
                            }
                        }
                        for &d in &f.s[h].trans[0].targets {
                            if !shadow.contains(&d) {
                                return Err((
                                    "history-default-target-not-entered".into(),
                                    format!("history {} has no recorded value but its default target {} is not active afterwards", name(h), name(d)),
                                ));
                            }
                        }
                    }
                }
            }
        }
        // default content must not run in any other situation
        if content {
            for ev in &step.seq {
                if let StepEv::Mark(m) = ev {
                    if let Some(hn) = m.strip_prefix("hd:") {
                        if let Some(&h) = f.by_id.get(hn) {
                            if !justified_defaults.contains(&h) {
                                return Err((
                                    "history-default-content-unjustified".into(),
                                    format!("default transition content of history {} ran in a microstep that did not take its default transition", hn),
                                ));
                            }
                        }
                    }
                }
            }
        }
    }
    Ok(())
}

// ---------------------------------------------------------------------------------------------

#[derive(Default, Debug)]
pub struct DoneStats {
    pub done_state_events: u64,
    pub done_parallel_events: u64,
    pub terminations_by_final: u64,
    pub terminations_by_cancel: u64,
    pub terminations_with_events_queued: u64,
    pub terminations_with_several_active_states: u64,
    pub onexit_marks_at_termination: u64,
}

fn in_final(f: &Flat, cfg: &BTreeSet<usize>, s: usize) -> bool {
    if f.is_compound(s) {
        f.s[s].children.iter().any(|&c| f.is_final(c) && cfg.contains(&c))
    } else if f.is_parallel(s) {
        f.s[s].children.iter().all(|&c| in_final(f, cfg, c))
    } else {
        false
    }
}

/// C07: done events and termination
pub fn done_and_termination(f: &Flat, res: &RunResult, st: &mut DoneStats, content: bool, events_sent: usize) -> Result<(), Viol> {
    let (steps, between) = steps(f, res);
    let mut shadow: BTreeSet<usize> = BTreeSet::new();
    let name = |i: usize| f.s[i].id.clone();
    let mut terminated_at: Option<usize> = None;
    for (si, step) in steps.iter().enumerate() {
        if let Some(t) = terminated_at {
            if !step.seq.is_empty() || !step.uids.is_empty() {
                return Err((
                    "microstep-after-top-level-final".into(),
                    format!("a microstep ({}) was taken after the top-level final state was entered in step {}", step.uids.join(" "), t),
                ));
            }
        }
        let mut i = 0;
        let seq = &step.seq;
        while i < seq.len() {
            match &seq[i] {
                StepEv::Exit(s) => {
                    shadow.remove(s);
                }
                StepEv::ISend(n) => {
                    return Err((
                        "unexpected-done-event".into(),
                        format!("{} was enqueued without a final state having been entered just before", n),
                    ));
                }
                StepEv::Enter(s) => {
                    shadow.insert(*s);
                    if f.is_final(*s) {
                        let p = f.s[*s].parent.unwrap();
                        if p == 0 {
                            terminated_at = Some(si);
                        } else {
                            // the done events follow the final state's entry content, before the next entry
                            let mut j = i + 1;
                            let mut sends = Vec::new();
                            while j < seq.len() {
                                match &seq[j] {
                                    StepEv::ISend(n) => sends.push(n.clone()),
                                    StepEv::Mark(_) => {}
                                    _ => break,
                                }
                                j += 1;
                            }
                            let mut expected = vec![format!("done.state.{}", name(p))];
                            if let Some(g) = f.s[p].parent {
                                if f.is_parallel(g) && f.s[g].children.iter().all(|&c| in_final(f, &shadow, c)) {
                                    expected.push(format!("done.state.{}", name(g)));
                                    st.done_parallel_events += 1;
                                }
                            }
                            st.done_state_events += 1;
                            if sends != expected {
                                return Err((
                                    if sends.len() > expected.len() { "extra-done-event" } else if sends.len() < expected.len() { "missing-done-event" } else { "wrong-done-event" }.to_string(),
                                    format!("entering final state {} must enqueue {:?}, observed {:?}", name(*s), expected, sends),
                                ));
                            }
                            // skip the sends we consumed
                            let mut k = i + 1;
                            while k < j {
                                k += 1;
                            }
                            // mark them as handled by replacing iteration index
                            i = j - 1;
                            // but marks in between still need no handling
                        }
                    }
                }
                StepEv::Mark(_) => {}
            }
            i += 1;
        }
    }
    // after termination: nothing but onexit content, each active state once, in exit order
    let mut cancel_at: Option<usize> = None;
    for (k, (_, line)) in between.iter().enumerate() {
        if line == &format!("X {}", CANCEL) {
            cancel_at = Some(k);
        }
    }
    let term_point: Option<usize> = match terminated_at {
        Some(t) => {
            st.terminations_by_final += 1;
            // index into `between` of the first entry that follows step t
            Some(between.iter().position(|(after, _)| *after > t).unwrap_or(between.len()))
        }
        None => cancel_at.map(|k| {
            st.terminations_by_cancel += 1;
            k + 1
        }),
    };
    if let Some(tp) = term_point {
        let mut onexit_marks = Vec::new();
        for (_, line) in &between[tp..] {
            if let Some(m) = line.strip_prefix("M ") {
                if m.starts_with("ex:") {
                    onexit_marks.push(m.to_string());
                }
            } else {
                return Err((
                    "event-processed-after-termination".into(),
                    format!("`{}` was processed after the session had reached its end", line),
                ));
            }
        }
        if shadow.len() >= 2 {
            st.terminations_with_several_active_states += 1;
        }
        if content {
            let mut expected = Vec::new();
            for &s in shadow.iter().rev() {
                for k in 0..f.s[s].onexit.len() {
                    expected.push(format!("ex:{}:{}", name(s), k));
                }
            }
            st.onexit_marks_at_termination += expected.len() as u64;
            if onexit_marks != expected {
                return Err((
                    "onexit-at-termination".into(),
                    format!("at termination the onexit handlers must run as {:?}, observed {:?}", expected, onexit_marks),
                ));
            }
        }
        if terminated_at.is_some() {
            let consumed = between.iter().filter(|(_, l)| l.starts_with("X ")).count();
            if consumed < events_sent {
                st.terminations_with_events_queued += 1;
            }
        }
    }
    Ok(())
}
