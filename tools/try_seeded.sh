#!/bin/bash
# Runs checks against a seeded change without touching /repo or /verif's build output:
#   tools/try_seeded.sh <patch.diff> <Cxx> [more checks…]      (env: TIER=quick|thorough SEED=n)
# A scratch worktree of /repo gets the patch, a scratch copy of /verif runs the checks against it.
set -u
PATCH="$1"; shift
S=${S:-/tmp/mutrun}
mkdir -p $S
if [ ! -d $S/repo ]; then git -C /repo worktree add --detach $S/repo HEAD -q; fi
git -C $S/repo checkout -q --detach $(git -C /repo rev-parse HEAD) 2>/dev/null
git -C $S/repo checkout -q -- . ; git -C $S/repo clean -fdq -e target
if ! git -C $S/repo apply "$PATCH"; then echo "PATCH-DOES-NOT-APPLY"; exit 3; fi
# committed state of /verif only (so that edits in progress do not disturb a running trial)
mkdir -p $S/verif && find $S/verif -mindepth 1 -maxdepth 1 ! -name .target ! -name .runs ! -name witness -exec rm -rf {} + && git -C /verif archive HEAD | tar -x -C $S/verif
cd $S/verif
for C in "$@"; do
  VERIF_REPO=$S/repo VERIF_TARGET=$S/target ./check $C --tier ${TIER:-quick} --seed ${SEED:-1} 2>&1 | grep -v "^KNOWN" | cut -c1-300 | head -${LINES_MAX:-12}
done
git -C $S/repo checkout -q -- .
