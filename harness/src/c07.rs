//! C07 – final states raise done events and a top-level final ends the session cleanly.
use crate::docgen::*;
use crate::report::{Args, Report};
use crate::structural::*;

pub fn run(args: &Args, rep: &mut Report) {
    let mut w = Workload::new(args, rep, Focus::Done);
    let dms = crate::c01::dms_available();
    let tune = |o: &mut GenOpts| {
        o.w_final = 6;
        o.w_parallel = 4;
        o.w_history = 1;
        o.w_eventless = 1;
        o.w_raise = 1;
        o.w_cond = 1;
        o.max_states = if o.max_states > 8 { 14 } else { 9 };
    };
    for (mode, salt) in [(false, 71u64), (true, 72u64)] {
        w.prequeue = mode;
        if args.shard == 0 {
            for dm in crate::c01::dms_available() {
                for (doc, paths) in crate::corpus::all(dm) {
                    let f = crate::refsim::Flat::from_doc(&doc).unwrap();
                    for p in &paths {
                        if w.run_one(&doc, &f, p, false) {
                            w.rep.nontrivial_key(&format!("{}:{}", mode, distinct_key(&doc, p)));
                        }
                    }
                }
            }
        }
        let n = args.scale(150, 2000);
        let mut rng = args.rng(salt);
        // nested parallels completing in every order
        for d in 0..args.scale(40, 600) {
            if crate::report::should_stop() {
                break;
            }
            let dm = dms[d % dms.len()];
            let (doc, paths) = crate::corpus::done_tree(&mut rng, dm, d);
            let f = match crate::refsim::Flat::from_doc(&doc) {
                Ok(f) => f,
                Err(e) => {
                    w.rep.inconclusive(&format!("done_tree document rejected by the reference: {:?}", e));
                    continue;
                }
            };
            for p in &paths {
                let b1 = w.dstats.done_parallel_events;
                if w.run_one(&doc, &f, p, false) && w.dstats.done_parallel_events > b1 {
                    w.rep.nontrivial_key(&format!("{}:{}", mode, distinct_key(&doc, p)));
                }
            }
        }
        for d in 0..n {
            if crate::report::should_stop() {
                break;
            }
            let dm = dms[d % dms.len()];
            let mut o = GenOpts::structural(dm, args.thorough());
            tune(&mut o);
            let doc = generate(&mut rng, &o, &format!("f{}", d));
            let f = match crate::refsim::Flat::from_doc(&doc) {
                Ok(f) => f,
                Err(_) => continue,
            };
            let alpha = alphabet(&o);
            for _ in 0..3 {
                let len = 2 + rng.below(if args.thorough() { 24 } else { 10 });
                let mut path = guided_path(&f, &alpha, len, &mut rng);
                // events that are still queued when the machine has stopped
                path.push("e1".to_string());
                path.push("e2".to_string());
                let b1 = w.dstats.done_parallel_events;
                let b2 = w.dstats.terminations_with_events_queued + w.dstats.terminations_with_several_active_states;
                if w.run_one(&doc, &f, &path, false) {
                    let a2 = w.dstats.terminations_with_events_queued + w.dstats.terminations_with_several_active_states;
                    if w.dstats.done_parallel_events > b1 || a2 > b2 {
                        w.rep.nontrivial_key(&format!("{}:{}", mode, distinct_key(&doc, &path)));
                    }
                }
            }
        }
    }
    w.flush_legality();
    let d = &w.dstats;
    w.rep.count("done_state_events", d.done_state_events);
    w.rep.count("done_state_parallel_events", d.done_parallel_events);
    w.rep.count("terminations_by_top_level_final", d.terminations_by_final);
    w.rep.count("terminations_by_cancel", d.terminations_by_cancel);
    w.rep.count("terminations_with_events_still_queued", d.terminations_with_events_queued);
    w.rep.count("terminations_with_several_active_states", d.terminations_with_several_active_states);
    w.rep.count("onexit_marks_checked_at_termination", d.onexit_marks_at_termination);
}
