#!/usr/bin/env python3
"""Writes /verif/MANIFEST.json from the table below (kept in one place so it stays valid)."""
import json, os, subprocess
V = os.path.dirname(os.path.dirname(os.path.abspath(__file__)))

def hook_commits():
    try:
        out = subprocess.run(["git", "-C", "/repo", "log", "--format=%H %s"], capture_output=True, text=True).stdout
        return [l.split()[0] for l in out.splitlines() if "verif hooks" in l]
    except Exception:
        return []

CHECKS = {
 "C10": dict(cat="exploration",
   text="Differential run of the real lexer/parser/evaluator against an independent reference evaluator written from the README and the property statement: every operator sequence up to length 3 (thorough 4) with typed sampled operands, random trees, assignments; each also in whitespace / parenthesis / ':' variants and three times through the data model's compilation cache. Sampling over operands, so this is exploration, not proof.",
   note="Trusted: harness/src/expr_ref.rs (reference semantics, precedence table, renderer). Operand-type combinations whose meaning the README does not fix are not generated (no verdict).",
   tech="differential runtime oracle (reference evaluator) + metamorphic variants + cache-equivalence monitor", ref="DESIGN.md §5 C10"),
}

NOT_APPLICABLE = []

def main():
    checks = []
    for pid in sorted(CHECKS):
        c = CHECKS[pid]
        checks.append({
            "property_id": pid,
            "quick_cmd": "./check %s --tier quick" % pid,
            "thorough_cmd": "./check %s --tier thorough" % pid,
            "evidence_file": "/verif/evidence/%s.json" % pid,
            "replay_cmd_template": "./check replay {path}",
            "engine": "rv",
            "level_claimed": {"category": c["cat"], "text": c["text"], "design_ref": c["ref"]},
            "level_note": c["note"],
            "technique": c["tech"],
        })
    props = [json.loads(l)["id"] for l in open(os.path.join(V, "properties.jsonl"))]
    na = list(NOT_APPLICABLE)
    claimed = set(CHECKS) | set(x["property_id"] for x in na)
    for p in props:
        if p not in claimed:
            na.append({"property_id": p, "reason": "check not built yet in this session (work in progress; runtime monitoring applies, see DESIGN.md §5)"})
    m = {
        "version": 1,
        "setup_cmd": "./check build",
        "hooks": {
            "guard": "cargo feature Verif_Hooks",
            "enable": "harness/Cargo.toml.in depends on ruFsm with features [RfsmExpressionModel, xml, serializer, Trace_Method, Trace_State, Trace_Event, Verif_Hooks] (+ECMAScriptModel, BasicHttpEventIOProcessor via rv feature 'full'); ./check rebuilds /repo's working tree before every run",
            "baseline_off_cmd": "cd /repo && CARGO_NET_OFFLINE=true cargo test --workspace --no-fail-fast --offline",
            "source_commits": hook_commits(),
            "add_only": True,
        },
        "engines": [{"name": "rv", "path": "/verif/harness", "serves_properties": sorted(CHECKS), "kind_free_text": "Rust harness linking the real crate: generators, reference models, recording tracer / probe actions, offline trace checkers, fault-injecting streams, lock observer; driven by /verif/check (python, sharding + aggregation + evidence)"}],
        "checks": checks,
        "not_applicable": na,
        "notes": "Runtime monitoring only. Exit 0 held / 1 VIOLATION / 2 inconclusive (gate not met, build error). Known findings: /verif/known_findings.json.",
    }
    json.dump(m, open(os.path.join(V, "MANIFEST.json"), "w"), indent=1)
    print("MANIFEST.json written:", len(checks), "checks,", len(na), "not applicable")

if __name__ == "__main__":
    main()
