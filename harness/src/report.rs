//! Per-shard result collection. One JSON file per shard; the python driver merges them.
use serde_json::{json, Map, Value};
use std::collections::{BTreeMap, BTreeSet};
use std::path::{Path, PathBuf};

pub struct Violation {
    /// specific signature of the failure (stable across seeds) – matched against known_findings.json
    pub key: String,
    pub what: String,
    /// replayable witness (JSON)
    pub witness: Value,
}

pub struct Report {
    pub prop: String,
    pub evaluations: u64,
    pub nontrivial: BTreeSet<u64>,
    pub samples: Vec<Value>,
    pub max_samples: usize,
    pub violations: Vec<Violation>,
    pub inconclusive: u64,
    pub inconclusive_notes: Vec<String>,
    pub counters: BTreeMap<String, u64>,
    pub sets: BTreeMap<String, BTreeSet<String>>,
    pub exhaustive: Option<bool>,
    pub notes: Vec<String>,
}

impl Report {
    pub fn new(prop: &str) -> Report {
        Report {
            prop: prop.to_string(),
            evaluations: 0,
            nontrivial: BTreeSet::new(),
            samples: Vec::new(),
            max_samples: 4,
            violations: Vec::new(),
            inconclusive: 0,
            inconclusive_notes: Vec::new(),
            counters: BTreeMap::new(),
            sets: BTreeMap::new(),
            exhaustive: None,
            notes: Vec::new(),
        }
    }
    pub fn count(&mut self, name: &str, n: u64) {
        *self.counters.entry(name.to_string()).or_insert(0) += n;
    }
    pub fn set_add(&mut self, name: &str, v: &str) {
        let s = self.sets.entry(name.to_string()).or_default();
        if s.len() < 4000 {
            s.insert(v.to_string());
        }
    }
    pub fn nontrivial_key(&mut self, s: &str) {
        self.nontrivial.insert(crate::rng::fnv(s));
    }
    pub fn sample(&mut self, v: Value) {
        if self.samples.len() < self.max_samples {
            self.samples.push(v);
        }
    }
    pub fn inconclusive(&mut self, note: &str) {
        self.inconclusive += 1;
        if self.inconclusive_notes.len() < 10 {
            self.inconclusive_notes.push(note.to_string());
        }
    }
    pub fn violation(&mut self, key: &str, what: &str, witness: Value) {
        // keep at most 3 witnesses per key
        let n = self.violations.iter().filter(|v| v.key == key).count();
        self.count("violations_total", 1);
        if n < 3 {
            self.violations.push(Violation {
                key: key.to_string(),
                what: what.to_string(),
                witness,
            });
        }
    }

    pub fn write(&self, out_dir: &Path, shard: usize) -> std::io::Result<PathBuf> {
        std::fs::create_dir_all(out_dir)?;
        let mut viols = Vec::new();
        for (i, v) in self.violations.iter().enumerate() {
            let wpath = out_dir.join(format!("witness-{}-{}-{}.json", self.prop, shard, i));
            let w = json!({"property": self.prop, "key": v.key, "what": v.what, "witness": v.witness});
            std::fs::write(&wpath, serde_json::to_string_pretty(&w).unwrap())?;
            viols.push(json!({"key": v.key, "what": v.what, "witness": wpath.to_string_lossy()}));
        }
        let mut counters = Map::new();
        for (k, v) in &self.counters {
            counters.insert(k.clone(), json!(v));
        }
        let mut sets = Map::new();
        for (k, v) in &self.sets {
            sets.insert(k.clone(), json!(v.iter().collect::<Vec<_>>()));
        }
        let v = json!({
            "property": self.prop,
            "shard": shard,
            "evaluations": self.evaluations,
            "nontrivial": self.nontrivial.iter().map(|h| format!("{:016x}", h)).collect::<Vec<_>>(),
            "samples": self.samples,
            "violations": viols,
            "inconclusive": self.inconclusive,
            "inconclusive_notes": self.inconclusive_notes,
            "counters": counters,
            "sets": sets,
            "exhaustive": self.exhaustive,
            "notes": self.notes,
        });
        let p = out_dir.join(format!("shard-{}.json", shard));
        std::fs::write(&p, serde_json::to_string(&v).unwrap())?;
        Ok(p)
    }
}

#[derive(Clone, Debug)]
pub struct Args {
    pub tier: String,
    pub seed: u64,
    pub shard: usize,
    pub nshards: usize,
    pub out: PathBuf,
    pub extra: Vec<String>,
    /// tier `miri`: workloads are `permille`/1000 of the quick size (the interpreter is ~10^3..10^4 times slower)
    pub permille: usize,
    /// tier `miri`: at most `budget` session runs per process, 1 of `every` fixed-corpus cases
    pub budget: usize,
    pub every: usize,
}

impl Args {
    pub fn thorough(&self) -> bool {
        self.tier == "thorough"
    }
    /// the worker runs inside the Miri interpreter (tier `miri`): tiny workloads, no sub-processes
    pub fn miri(&self) -> bool {
        self.tier == "miri"
    }
    /// keeps 1 of `every` items of a fixed enumeration under Miri (all of them natively)
    pub fn keep(&self, i: usize, every: usize) -> bool {
        !self.miri() || (i.wrapping_add(self.seed as usize)) % every.max(1) == 0
    }
    /// scale(quick, thorough)
    pub fn scale(&self, q: usize, t: usize) -> usize {
        if self.miri() {
            return std::cmp::max(1, q * self.permille / 1000);
        }
        let base = if self.thorough() { t } else { q };
        // VERIF_SCALE (percent) lets the mutant runner shrink workloads
        match std::env::var("VERIF_SCALE").ok().and_then(|s| s.parse::<usize>().ok()) {
            Some(p) => std::cmp::max(1, base * p / 100),
            None => base,
        }
    }
    pub fn rng(&self, salt: u64) -> crate::rng::Rng {
        crate::rng::Rng::new(self.seed.wrapping_mul(0x9E3779B97F4A7C15) ^ (self.shard as u64) << 32 ^ salt)
    }
    /// true if item i belongs to this shard
    pub fn mine(&self, i: usize) -> bool {
        i % self.nshards == self.shard
    }
}

static STOP: std::sync::atomic::AtomicBool = std::sync::atomic::AtomicBool::new(false);
/// set when a runaway session thread was left behind: the shard stops generating further cases
pub fn request_stop() {
    STOP.store(true, std::sync::atomic::Ordering::SeqCst);
}
pub fn should_stop() -> bool {
    STOP.load(std::sync::atomic::Ordering::SeqCst)
}

static PROGRESS: std::sync::Mutex<Option<PathBuf>> = std::sync::Mutex::new(None);
/// The worker names the case it is about to run in `<out>/shard-<i>.progress` (overwritten each time) wherever the
/// code under test may end the whole process (allocation failure on a corrupted length, stack exhaustion): the
/// driver attributes a death by signal to that case.
pub fn set_progress_file(p: PathBuf) {
    *PROGRESS.lock().unwrap() = Some(p);
}
pub fn progress(prop_key: &str, what: &str, witness: &Value) {
    if let Some(p) = PROGRESS.lock().unwrap().as_ref() {
        let _ = std::fs::write(p, serde_json::to_string(&json!({"key": prop_key, "what": what, "witness": witness})).unwrap_or_default());
    }
}
pub fn progress_done() {
    if let Some(p) = PROGRESS.lock().unwrap().as_ref() {
        let _ = std::fs::remove_file(p);
    }
}
