use rv::report::{Args, Report};
use std::path::PathBuf;

fn usage() -> ! {
    eprintln!("usage: rv <property|selftest> [--tier quick|thorough] [--seed N] [--shard i/n] [--out DIR] [extra…]");
    std::process::exit(2)
}

fn main() {
    let argv: Vec<String> = std::env::args().collect();
    if argv.len() < 2 {
        usage();
    }
    let cmd = argv[1].clone();
    let mut args = Args {
        tier: "quick".to_string(),
        seed: 1,
        shard: 0,
        nshards: 1,
        out: PathBuf::from("."),
        extra: Vec::new(),
        permille: 4,
        budget: 6,
        every: 5,
    };
    let mut i = 2;
    while i < argv.len() {
        match argv[i].as_str() {
            "--tier" => {
                args.tier = argv[i + 1].clone();
                i += 2;
            }
            "--seed" => {
                args.seed = argv[i + 1].parse().unwrap_or(1);
                i += 2;
            }
            "--shard" => {
                let p: Vec<&str> = argv[i + 1].split('/').collect();
                args.shard = p[0].parse().unwrap();
                args.nshards = p[1].parse().unwrap();
                i += 2;
            }
            "--permille" => {
                args.permille = argv[i + 1].parse().unwrap_or(4);
                i += 2;
            }
            "--budget" => {
                args.budget = argv[i + 1].parse().unwrap_or(6);
                i += 2;
            }
            "--every" => {
                args.every = argv[i + 1].parse().unwrap_or(5);
                i += 2;
            }
            "--out" => {
                args.out = PathBuf::from(&argv[i + 1]);
                i += 2;
            }
            _ => {
                args.extra.push(argv[i].clone());
                i += 1;
            }
        }
    }
    rv::phook::install();
    if cmd == "c11sub" {
        let code = rv::c11::sub_main(&args.extra[0], &args.extra[1]);
        std::process::exit(code);
    }
    if cmd == "c11batch" {
        let first = args.extra.get(2).and_then(|s| s.parse().ok()).unwrap_or(0);
        let code = rv::c11::batch_main(&args.extra[0], &args.extra[1], first);
        std::process::exit(code);
    }
    if cmd == "c12case" {
        let k = args.extra[1].parse().unwrap_or(0);
        let code = rv::c12::case_main(&args.extra[0], k, &args.extra[2]);
        std::process::exit(code);
    }
    if cmd == "replay" {
        let code = match args.extra.first() {
            Some(f) => rv::replay::main(f),
            None => 2,
        };
        std::process::exit(code);
    }
    if cmd == "runxml" {
        // debugging aid: rv runxml <file.scxml> [event…] prints the recorded log of one run
        let xml = std::fs::read_to_string(&args.extra[0]).expect("file");
        let path: Vec<String> = args.extra[1..].to_vec();
        let res = rv::session::run_doc(&xml, &path);
        eprintln!("status: {:?}", res.status);
        for e in &res.log {
            eprintln!("{}", e.line());
        }
        std::process::exit(0);
    }
    if cmd == "selftest" {
        let mut failed = false;
        for (name, r) in rv::selftests() {
            match r {
                Ok(()) => println!("selftest {}: ok", name),
                Err(e) => {
                    println!("selftest {}: FAILED {}", name, e);
                    failed = true;
                }
            }
        }
        std::process::exit(if failed { 2 } else { 0 });
    }
    let mut rep = Report::new(&cmd);
    rv::report::set_progress_file(args.out.join(format!("shard-{}.progress", args.shard)));
    let known = rv::dispatch(&cmd, &args, &mut rep);
    rv::report::progress_done();
    if !known {
        eprintln!("unknown property {}", cmd);
        std::process::exit(2);
    }
    match rep.write(&args.out, args.shard) {
        Ok(_) => {}
        Err(e) => {
            eprintln!("cannot write report: {}", e);
            std::process::exit(2);
        }
    }
    // never wait for left-over session / timer threads
    std::process::exit(0);
}
