//! Observer for the instrumented mutex (`rufsm::verif_sync`, feature Verif_Hooks):
//! relock-by-owner detection, lock-order graph (lockdep), wait-for graph with online cycle
//! detection, seeded jitter and targeted pauses to confirm predicted cycles.

use rufsm::verif_sync::Observer;
use std::cell::RefCell;
use std::collections::{BTreeMap, BTreeSet, HashMap};
use std::sync::atomic::{AtomicBool, AtomicU64, AtomicU8, Ordering};
use std::sync::{Arc, Mutex, OnceLock};
use std::time::{Duration, Instant};

pub const RELOCK_PANIC_PREFIX: &str = "VERIF-RELOCK";

thread_local! {
    static HELD: RefCell<Vec<(u64, &'static str)>> = const { RefCell::new(Vec::new()) };
    static JITTER: RefCell<u64> = const { RefCell::new(0) };
}

pub fn short_class(c: &'static str) -> &'static str {
    if c.contains("GlobalData") {
        "G"
    } else if c.contains("ExecutorState") {
        "E"
    } else if c.contains("EventIOProcessor") {
        "P"
    } else if c.contains("datamodel::Data") {
        "D"
    } else if c.contains("Receiver") {
        "R"
    } else if c.contains("Action") {
        "A"
    } else if c.contains("DatamodelFactory") {
        "F"
    } else {
        "other"
    }
}

#[derive(Clone, Debug)]
pub struct Edge {
    pub from: u64,
    pub from_class: &'static str,
    pub to: u64,
    pub to_class: &'static str,
    pub thread: u64,
    pub thread_name: String,
    pub count: u64,
    /// other locks held at that time (gate locks)
    pub also_held: Vec<u64>,
    pub first_seen: Instant,
}

#[derive(Clone, Debug)]
pub struct Deadlock {
    /// (thread, thread name, waits for mutex id, class, held by thread)
    pub cycle: Vec<(u64, String, u64, &'static str, u64)>,
}

#[derive(Default)]
struct Graph {
    edges: HashMap<(u64, u64, u64), Edge>,
    owner: HashMap<u64, u64>,
    waiting: HashMap<u64, (u64, &'static str)>,
    thread_names: HashMap<u64, String>,
    deadlocks: Vec<Deadlock>,
    relocks: Vec<(u64, &'static str, String)>,
    class_pair_counts: BTreeMap<String, u64>,
    /// pause plan: a thread about to take `second` while holding `first` waits until some other
    /// thread holds `other_first` (ids are class letters, instance independent)
    pauses_done: u64,
    pause_candidates: u64,
}

pub struct LockMon {
    /// 0 = off, 1 = relock only (thread local, cheap), 2 = full (edges + wait-for)
    level: AtomicU8,
    panic_on_relock: AtomicBool,
    track_data: AtomicBool,
    jitter_seed: AtomicU64,
    /// class letters of a pause plan: when holding .0 and requesting .1, wait until somebody holds .2 and waits for / requests .3
    pause_plan: Mutex<Option<(String, String)>>,
    g: Mutex<Graph>,
    pub acquisitions: AtomicU64,
}

fn mon() -> &'static Arc<LockMon> {
    static M: OnceLock<Arc<LockMon>> = OnceLock::new();
    M.get_or_init(|| {
        Arc::new(LockMon {
            level: AtomicU8::new(0),
            panic_on_relock: AtomicBool::new(false),
            track_data: AtomicBool::new(false),
            jitter_seed: AtomicU64::new(0),
            pause_plan: Mutex::new(None),
            g: Mutex::new(Graph::default()),
            acquisitions: AtomicU64::new(0),
        })
    })
}

fn graph() -> std::sync::MutexGuard<'static, Graph> {
    match mon().g.lock() {
        Ok(g) => g,
        Err(p) => p.into_inner(),
    }
}

struct Obs;

impl Observer for Obs {
    fn before_lock(&self, id: u64, class: &'static str) {
        let m = mon();
        let level = m.level.load(Ordering::Relaxed);
        if level == 0 {
            return;
        }
        let tid = crate::rec::tid();
        let held: Vec<(u64, &'static str)> = HELD.try_with(|h| h.borrow().clone()).unwrap_or_default();
        if held.iter().any(|(h, _)| *h == id) {
            let name = std::thread::current().name().unwrap_or("?").to_string();
            graph().relocks.push((id, class, name));
            if m.panic_on_relock.load(Ordering::Relaxed) {
                panic!("{} thread relocks {} #{} which it already holds (self-deadlock)", RELOCK_PANIC_PREFIX, short_class(class), id);
            }
        }
        if level < 2 {
            return;
        }
        let sc = short_class(class);
        if sc == "D" && !m.track_data.load(Ordering::Relaxed) {
            return;
        }
        // jitter
        let seed = m.jitter_seed.load(Ordering::Relaxed);
        if seed != 0 {
            let r = JITTER
                .try_with(|j| {
                    let mut x = j.borrow_mut();
                    if *x == 0 {
                        *x = seed ^ tid.wrapping_mul(0x9E3779B97F4A7C15);
                    }
                    *x ^= *x << 13;
                    *x ^= *x >> 7;
                    *x ^= *x << 17;
                    *x
                })
                .unwrap_or(0);
            match r % 16 {
                0 => std::thread::sleep(Duration::from_micros(r % 200)),
                1..=3 => std::thread::yield_now(),
                _ => {}
            }
        }
        // pause plan (confirmation of a predicted cycle)
        let plan = m.pause_plan.lock().ok().and_then(|p| p.clone());
        if let Some((first, second)) = plan {
            if sc == second && held.iter().any(|(_, c)| short_class(c) == first) {
                // hold back briefly so that the opposite order can get its first lock (every 5th occurrence, at
                // most 80 times per run: the workload must keep moving)
                let go = {
                    let mut g = graph();
                    g.pause_candidates += 1;
                    if g.pause_candidates % 5 == 1 && g.pauses_done < 80 {
                        g.pauses_done += 1;
                        true
                    } else {
                        false
                    }
                };
                if go {
                    std::thread::sleep(Duration::from_millis(30));
                }
            }
        }
        let mut g = graph();
        if !g.thread_names.contains_key(&tid) {
            g.thread_names.insert(tid, std::thread::current().name().unwrap_or("?").to_string());
        }
        for (h, hc) in &held {
            if short_class(hc) == "D" && !m.track_data.load(Ordering::Relaxed) {
                continue;
            }
            let key = (*h, id, tid);
            let also: Vec<u64> = held.iter().map(|(x, _)| *x).filter(|x| x != h).collect();
            let tn = g.thread_names.get(&tid).cloned().unwrap_or_default();
            let e = g.edges.entry(key).or_insert_with(|| Edge {
                from: *h,
                from_class: hc,
                to: id,
                to_class: class,
                thread: tid,
                thread_name: tn,
                count: 0,
                also_held: also,
                first_seen: Instant::now(),
            });
            e.count += 1;
            *g.class_pair_counts.entry(format!("{}->{}", short_class(hc), sc)).or_insert(0) += 1;
        }
        // wait-for
        g.waiting.insert(tid, (id, class));
        let mut cycle = Vec::new();
        let mut cur_thread = tid;
        let mut seen = BTreeSet::new();
        loop {
            let (want, wclass) = match g.waiting.get(&cur_thread) {
                Some(w) => *w,
                None => break,
            };
            let owner = match g.owner.get(&want) {
                Some(o) => *o,
                None => break,
            };
            cycle.push((cur_thread, g.thread_names.get(&cur_thread).cloned().unwrap_or_default(), want, wclass, owner));
            if owner == tid {
                // closed
                let d = Deadlock { cycle: cycle.clone() };
                g.deadlocks.push(d);
                break;
            }
            if !seen.insert(owner) {
                break;
            }
            cur_thread = owner;
        }
    }

    fn acquired(&self, id: u64, class: &'static str) {
        let m = mon();
        let level = m.level.load(Ordering::Relaxed);
        if level == 0 {
            return;
        }
        m.acquisitions.fetch_add(1, Ordering::Relaxed);
        let _ = HELD.try_with(|h| h.borrow_mut().push((id, class)));
        if level >= 2 {
            if short_class(class) == "D" && !m.track_data.load(Ordering::Relaxed) {
                return;
            }
            let tid = crate::rec::tid();
            let mut g = graph();
            g.owner.insert(id, tid);
            g.waiting.remove(&tid);
        }
    }

    fn released(&self, id: u64, class: &'static str) {
        let m = mon();
        let level = m.level.load(Ordering::Relaxed);
        if level == 0 {
            return;
        }
        let _ = HELD.try_with(|h| {
            let mut v = h.borrow_mut();
            if let Some(p) = v.iter().rposition(|(x, _)| *x == id) {
                v.remove(p);
            }
        });
        if level >= 2 {
            if short_class(class) == "D" && !m.track_data.load(Ordering::Relaxed) {
                return;
            }
            let tid = crate::rec::tid();
            let mut g = graph();
            if g.owner.get(&id) == Some(&tid) {
                g.owner.remove(&id);
            }
        }
    }

    fn try_failed(&self, _id: u64, _class: &'static str) {}
}

pub fn install() {
    static ONCE: OnceLock<()> = OnceLock::new();
    ONCE.get_or_init(|| {
        rufsm::verif_sync::set_observer(Some(Arc::new(Obs)));
    });
}

/// total number of instrumented lock acquisitions so far (a progress measure for watchdogs)
pub fn acquisitions() -> u64 {
    mon().acquisitions.load(Ordering::Relaxed)
}

pub fn set_level(level: u8) {
    install();
    mon().level.store(level, Ordering::SeqCst);
}

pub fn set_panic_on_relock(on: bool) {
    mon().panic_on_relock.store(on, Ordering::SeqCst);
}

pub fn set_track_data(on: bool) {
    mon().track_data.store(on, Ordering::SeqCst);
}

pub fn set_jitter(seed: u64) {
    mon().jitter_seed.store(seed, Ordering::SeqCst);
}

pub fn set_pause_plan(plan: Option<(String, String)>) {
    if let Ok(mut p) = mon().pause_plan.lock() {
        *p = plan;
    }
}

/// clears the graph (not the per-thread held stacks)
pub fn reset() {
    let mut g = graph();
    *g = Graph::default();
}

/// forget what the current thread holds (after a caught panic the guards are gone anyway)
pub fn clear_thread() {
    let _ = HELD.try_with(|h| h.borrow_mut().clear());
}

pub fn held_by_current_thread() -> usize {
    HELD.try_with(|h| h.borrow().len()).unwrap_or(0)
}

pub struct Snapshot {
    pub edges: Vec<Edge>,
    pub deadlocks: Vec<Deadlock>,
    pub relocks: Vec<(u64, &'static str, String)>,
    pub class_pair_counts: BTreeMap<String, u64>,
    pub pauses_done: u64,
    /// threads currently blocked: (thread, name, mutex id, class)
    pub waiting: Vec<(u64, String, u64, &'static str)>,
}

pub fn snapshot() -> Snapshot {
    let g = graph();
    Snapshot {
        edges: g.edges.values().cloned().collect(),
        deadlocks: g.deadlocks.clone(),
        relocks: g.relocks.clone(),
        class_pair_counts: g.class_pair_counts.clone(),
        pauses_done: g.pauses_done,
        waiting: g
            .waiting
            .iter()
            .map(|(t, (id, c))| (*t, g.thread_names.get(t).cloned().unwrap_or_default(), *id, *c))
            .collect(),
    }
}

/// candidate cycles of length 2 in the class-level lock-order graph whose edges come from
/// different threads and different instances pairs that can actually meet: (A->B by t1, B->A by t2)
pub fn class_level_inversions(s: &Snapshot) -> Vec<(String, String, Vec<String>)> {
    let mut by_pair: BTreeMap<(String, String), BTreeSet<String>> = BTreeMap::new();
    for e in &s.edges {
        let a = short_class(e.from_class).to_string();
        let b = short_class(e.to_class).to_string();
        by_pair.entry((a, b)).or_default().insert(e.thread_name.split('_').next().unwrap_or("?").to_string());
    }
    let mut out = Vec::new();
    for ((a, b), threads) in &by_pair {
        if a < b {
            if let Some(rev) = by_pair.get(&(b.clone(), a.clone())) {
                let mut t: Vec<String> = threads.iter().cloned().collect();
                t.extend(rev.iter().cloned());
                out.push((a.clone(), b.clone(), t));
            }
        }
    }
    out
}

/// instance-level 2-cycles: m1->m2 by thread t1 and m2->m1 by thread t2 != t1 without a common gate lock
pub fn instance_level_inversions(s: &Snapshot) -> Vec<(Edge, Edge)> {
    let mut out = Vec::new();
    let mut idx: HashMap<(u64, u64), Vec<&Edge>> = HashMap::new();
    for e in &s.edges {
        idx.entry((e.from, e.to)).or_default().push(e);
    }
    for ((a, b), es) in &idx {
        if a < b {
            if let Some(rs) = idx.get(&(*b, *a)) {
                for e in es {
                    for r in rs {
                        if e.thread != r.thread && !e.also_held.iter().any(|x| r.also_held.contains(x)) {
                            out.push(((*e).clone(), (*r).clone()));
                        }
                    }
                }
            }
        }
    }
    out
}
