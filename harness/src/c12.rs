//! C12 – no accepted document or event sequence can crash or wedge its session.
use crate::expr_ref::V;
use crate::rec::{self, Ev, Wait};
use crate::report::{Args, Report};
use crate::session::{parse_xml, Case, Running};
use rufsm::fsm::Event;
use serde_json::json;
use std::time::{Duration, Instant};

#[derive(Clone, Debug, PartialEq)]
enum Expect {
    /// this error event must be on the internal queue in the macrostep of `go`
    Error(&'static str),
    /// some error.* event
    AnyError,
    /// nothing mandated: at most an error event or a log entry
    NoCrash,
}

struct Scenario {
    class: &'static str,
    name: String,
    /// executable content placed in the `go` transition
    content: String,
    /// extra children of the probing state (invoke …) or extra states
    state_extra: String,
    expect: Expect,
    events: Vec<String>,
}

fn sc(class: &'static str, name: &str, content: &str, expect: Expect) -> Scenario {
    Scenario {
        class,
        name: name.to_string(),
        content: content.to_string(),
        state_extra: String::new(),
        expect,
        events: vec![],
    }
}

fn scenarios(dm: &str) -> Vec<Scenario> {
    let mut v = Vec::new();
    let e = Expect::Error;
    v.push(sc("send-unsupported-type", "type", r##"<send event="x" type="no-such-processor"/>"##, e("error.execution")));
    v.push(sc("send-unsupported-type", "typeexpr-value", r##"<send event="x" typeexpr="'gopher'"/>"##, e("error.execution")));
    v.push(sc("send-malformed-target", "bang", r##"<send event="x" target="!not-a-target"/>"##, e("error.execution")));
    v.push(sc("send-malformed-target", "plain-word", r##"<send event="x" target="foo"/>"##, e("error.execution")));
    for (n, t) in [("empty-id", "#_scxml_"), ("alpha-id", "#_scxml_abc"), ("negative-id", "#_scxml_-1"), ("overflow-id", "#_scxml_99999999999"), ("bare-prefix", "#_")] {
        v.push(sc("send-malformed-session-target", n, &format!(r##"<send event="x" target="{}"/>"##, t), Expect::AnyError));
    }
    v.push(sc("send-nonexistent-session", "never-issued-id", r##"<send event="x" target="#_scxml_987654"/>"##, e("error.communication")));
    v.push(sc("send-nonexistent-session", "never-issued-id-expr", r##"<send event="x" targetexpr="'#_scxml_' + '987655'"/>"##, e("error.communication")));
    v.push(sc("send-nonexistent-session", "unknown-invokeid", r##"<send event="x" target="#_nosuchinvoke"/>"##, e("error.communication")));
    v.push(sc("send-to-missing-parent", "parent", r##"<send event="x" target="#_parent"/>"##, Expect::NoCrash));
    v.push(sc("illegal-delay", "delayexpr-text", r##"<send event="x" delayexpr="'soon'"/>"##, e("error.execution")));
    v.push(sc("illegal-delay", "delayexpr-negative", r##"<send event="x" delayexpr="'-5s'"/>"##, e("error.execution")));
    v.push(sc("illegal-delay", "delay-to-internal", r##"<send event="x" target="#_internal" delay="10ms"/>"##, e("error.execution")));
    v.push(sc("illegal-delay", "delayexpr-unit", r##"<send event="x" delayexpr="'5 parsecs'"/>"##, e("error.execution")));
    for (n, c) in [
        ("eventexpr", r##"<send eventexpr="nosuch_variable"/>"##),
        ("targetexpr", r##"<send event="x" targetexpr="nosuch_variable"/>"##),
        ("typeexpr", r##"<send event="x" typeexpr="nosuch_variable"/>"##),
        ("delayexpr", r##"<send event="x" delayexpr="nosuch_variable"/>"##),
        ("namelist", r##"<send event="x" namelist="nosuch_variable"/>"##),
        ("param-expr", r##"<send event="x"><param name="p" expr="nosuch_variable"/></send>"##),
        ("param-location", r##"<send event="x"><param name="p" location="nosuch_variable"/></send>"##),
        ("content-expr", r##"<send event="x"><content expr="nosuch_variable"/></send>"##),
        ("idlocation", r##"<send event="x" idlocation="nosuch_variable.field"/>"##),
        ("assign-location", r##"<assign location="nosuch_variable" expr="1"/>"##),
        ("assign-expr", r##"<assign location="v" expr="nosuch_variable"/>"##),
        ("log", r##"<log expr="nosuch_variable"/>"##),
        ("script", r##"<script>nosuch_variable + 1</script>"##),
        ("if-cond", r##"<if cond="nosuch_variable"><log expr="1"/></if>"##),
        ("foreach-array", r##"<foreach array="nosuch_variable" item="i"><log expr="i"/></foreach>"##),
        ("foreach-item", r##"<foreach array="[1,2]" item="1bad name"><log expr="1"/></foreach>"##),
        ("syntax-error", r##"<log expr="1 + + ) ("/>"##),
        ("unterminated-string", r##"<log expr="'abc"/>"##),
        ("trailing-operator", r##"<log expr="v &lt;"/>"##),
        ("in-without-argument", r##"<if cond="In()"><log expr="1"/></if>"##),
    ] {
        // In() without argument is not an error in ECMAScript (missing arguments are undefined)
        let exp = if n == "idlocation" || n == "foreach-item" || (n == "in-without-argument" && dm == "ecmascript") {
            Expect::NoCrash
        } else {
            e("error.execution")
        };
        v.push(sc("erroring-expression", n, c, exp));
    }
    // delays that are legal in form but extreme in size: "now + delay" leaves the range of the calendar
    for (n, c) in [
        ("huge-days", r##"<send event="x" delay="100000000000d"/>"##),
        ("huge-days-expr", r##"<send event="x" delayexpr="'9999999999999999d'"/>"##),
        ("huge-ms", r##"<send event="x" delay="9223372036854775807ms"/>"##),
        ("beyond-i64-ms", r##"<send event="x" delay="99999999999999999999999999ms"/>"##),
        ("tiny-fraction", r##"<send event="x" delay="0.0000001ms"/>"##),
        ("huge-with-id-then-cancel", r##"<send event="x" id="far" delay="200000000000d"/><cancel sendid="far"/>"##),
    ] {
        v.push(sc("extreme-delay", n, c, Expect::NoCrash));
    }
    // several attributes of one <send> naming the same variable (in rfsm-expression a variable evaluates to the
    // stored value itself, so the platform meets the same lock twice if it keeps one attribute's value locked)
    for (n, c) in [
        ("target-and-type", r##"<send event="x" targetexpr="tv" typeexpr="tv"/>"##),
        ("event-and-target", r##"<send eventexpr="tv" targetexpr="tv"/>"##),
        ("event-and-type", r##"<send eventexpr="ev" typeexpr="ev"/>"##),
        ("target-and-delay", r##"<send event="x" targetexpr="tv" delayexpr="tv"/>"##),
        ("target-and-namelist", r##"<send event="x" targetexpr="tv" namelist="tv"/>"##),
        ("target-and-param", r##"<send event="x" targetexpr="tv"><param name="p" expr="tv"/></send>"##),
        ("target-and-content", r##"<send event="x" targetexpr="tv"><content expr="tv"/></send>"##),
        ("event-and-param", r##"<send eventexpr="ev"><param name="p" expr="ev"/><param name="q" expr="ev"/></send>"##),
        ("event-and-idlocation", r##"<send eventexpr="ev" idlocation="ev"/>"##),
        ("cancel-by-variable-twice", r##"<send event="x" id="x" delay="1s"/><cancel sendidexpr="ev"/><cancel sendidexpr="ev"/>"##),
    ] {
        v.push(sc("aliased-send-arguments", n, c, Expect::NoCrash));
    }
    // malformed expression texts (what C11 explores in bulk at the expression engine's boundary, here inside a running
    // session): as a value expression and as a transition guard; whatever the data model makes of them, the session
    // must survive and stay responsive
    for (k, text) in [
        "v[]", "v[", "v[0][]", "v[(0, 1)]", "v.", ".v", "v..w", "v[1", "abs(", "abs(,)", "abs(1,,2)", "[1,", "[,]", "{", "{'a':}", "{'a' 1}", "1 , 2", "(1, 2)", "a \\ b",
        "(", ")", "()", "''''", "'\\u12'", "1e", "1e+", "0x", "..", "?=", "= 1", "v =", "v ?=", "!", "-", "%", "1 % 0", "v[v[v]]", "\u{feff}v", "v;;v", "v ; ; 1",
    ]
    .iter()
    .enumerate()
    {
        let esc = text.replace('&', "&amp;").replace('<', "&lt;").replace('"', "&quot;");
        v.push(sc("malformed-expression", &format!("log-{}", k), &format!(r##"<log expr="{}"/>"##, esc), Expect::NoCrash));
        let mut g = sc("malformed-expression", &format!("guard-{}", k), "", Expect::NoCrash);
        g.state_extra = format!(r##"<transition event="go2" cond="{}"><script>mark('guarded')</script></transition>"##, esc);
        g.events = vec!["go2".into()];
        v.push(g);
    }
    v.push(sc("cancel-unknown", "literal", r##"<cancel sendid="never-sent"/>"##, Expect::NoCrash));
    v.push(sc("cancel-unknown", "expr-error", r##"<cancel sendidexpr="nosuch_variable"/>"##, Expect::NoCrash));
    // transitions with odd guards: evaluated during selection
    let mut g = sc("erroring-expression", "transition-cond", "", e("error.execution"));
    g.state_extra = r##"<transition event="go2" cond="nosuch_variable == 1"><script>mark('never')</script></transition>"##.to_string();
    g.events = vec!["go2".into()];
    v.push(g);
    let mut g = sc("erroring-expression", "in-unknown-state", "", Expect::NoCrash);
    g.state_extra = r##"<transition event="go2" cond="In('no_such_state')"><script>mark('never')</script></transition>"##.to_string();
    g.events = vec!["go2".into()];
    v.push(g);
    // invoke failures (at the end of the macrostep that enters the invoking state)
    for (n, inv) in [
        ("missing-file", r##"<invoke type="scxml" src="file:/nonexistent/dir/child.scxml"/>"##.to_string()),
        ("missing-rfsm", r##"<invoke src="/nonexistent/child.rfsm"/>"##.to_string()),
        ("directory", r##"<invoke src="/tmp"/>"##.to_string()),
        ("unsupported-type", r##"<invoke type="http://example.org/other" src="x.scxml"/>"##.to_string()),
        ("unknown-extension", r##"<invoke src="child.txt"/>"##.to_string()),
        ("srcexpr-error", r##"<invoke srcexpr="nosuch_variable"/>"##.to_string()),
        ("typeexpr-error", r##"<invoke typeexpr="nosuch_variable" src="x.scxml"/>"##.to_string()),
        ("namelist-error", r##"<invoke src="x.scxml" namelist="nosuch_variable"/>"##.to_string()),
        ("content-not-xml", r##"<invoke><content>this is not xml at all &lt;&lt;</content></invoke>"##.to_string()),
        ("content-empty-scxml", r##"<invoke><content><scxml xmlns="http://www.w3.org/2005/07/scxml"/></content></invoke>"##.to_string()),
        ("content-reader-rejects", r##"<invoke><content><scxml xmlns="http://www.w3.org/2005/07/scxml"><state id="q"><transition type="sideways"/></state></scxml></content></invoke>"##.to_string()),
        ("content-undeclared-target", r##"<invoke><content><scxml xmlns="http://www.w3.org/2005/07/scxml"><state id="q"><transition event="e" target="nowhere"/></state></scxml></content></invoke>"##.to_string()),
        ("content-unknown-datamodel", r##"<invoke><content><scxml xmlns="http://www.w3.org/2005/07/scxml" datamodel="cobol"><state id="q"/></scxml></content></invoke>"##.to_string()),
        ("content-expr-error", r##"<invoke><content expr="nosuch_variable"/></invoke>"##.to_string()),
        ("no-src-no-content", r##"<invoke/>"##.to_string()),
        ("nested-3-levels", format!(r##"<invoke><content><scxml xmlns="http://www.w3.org/2005/07/scxml" datamodel="{dm}"><state id="l1"><invoke><content><scxml xmlns="http://www.w3.org/2005/07/scxml" datamodel="{dm}"><state id="l2"><invoke src="/nonexistent.scxml"/><onentry><send event="deep" target="#_parent"/></onentry></state></scxml></content></invoke></state></scxml></content></invoke>"##, dm = dm)),
    ] {
        let mut s = sc("invoke-cannot-start", n, r##"<raise event="enter.inv"/>"##, Expect::NoCrash);
        s.state_extra = format!(
            r##"<transition event="enter.inv" target="inv"/></state><state id="inv">{}<transition event="back" target="a"/><transition event="probe"><script>mark('probe')</script></transition><transition event="error"><script>mark('err', _event.name)</script></transition><transition event="*"><script>mark('other', _event.name)</script></transition>"##,
            inv
        );
        s.events = vec!["back".into()];
        v.push(s);
    }
    // donedata errors
    let mut s = sc("erroring-expression", "donedata-param", r##"<raise event="enter.c"/>"##, e("error.execution"));
    s.state_extra = r##"<transition event="enter.c" target="c"/></state><state id="c"><transition event="done.state.c" target="a"/><transition event="error"><script>mark('err', _event.name)</script></transition><final id="cf"><donedata><param name="p" expr="nosuch_variable"/></donedata></final>"##.to_string();
    v.push(s);
    let mut s = sc("erroring-expression", "donedata-content", r##"<raise event="enter.c"/>"##, e("error.execution"));
    s.state_extra = r##"<transition event="enter.c" target="c"/></state><state id="c"><transition event="done.state.c" target="a"/><transition event="error"><script>mark('err', _event.name)</script></transition><final id="cf"><donedata><content expr="nosuch_variable"/></donedata></final>"##.to_string();
    v.push(s);
    // odd event names from the host
    let long = "l".repeat(20000);
    let mut s = sc("odd-events", "platform-lookalikes", "", Expect::NoCrash);
    s.events = ["done.invoke.x", "done.invoke.", "done.invoke", "error.platform.cancel.not", "error.platform", "trace.states.on", "trace.states.off", "trace.bogus.on", "trace.states.bogus", "trace.all.On", "trace.", "trace..", "", " ", ".", "..", "*", "a.*", "#_internal", "é.日本", "\u{0}", "done.state.a"]
        .iter()
        .map(|x| x.to_string())
        .collect();
    s.events.push(long);
    v.push(s);
    v
}

/// where the failing element sits (scenarios without extra states only): 0 = body of the `go` transition,
/// 1 = onentry of the state `go` enters, 2 = onexit of the state `go` leaves, 3 = a branch of an <if>,
/// 4 = the body of a <foreach>
const PLACEMENTS: usize = 5;

fn doc(dm: &str, s: &Scenario) -> String {
    doc_placed(dm, s, 0)
}

fn doc_placed(dm: &str, s: &Scenario, placement: usize) -> String {
    let placement = if s.state_extra.is_empty() && !s.content.is_empty() { placement % PLACEMENTS } else { 0 };
    let wrapped = match placement {
        3 => format!("<if cond=\"v == 2\"><log expr=\"1\"/><elseif cond=\"v == 1\"/>{}<script>mark('in-branch-end')</script></if>", s.content),
        4 => format!("<foreach array=\"[7]\" item=\"it\">{}<script>mark('in-loop-end')</script></foreach>", s.content),
        _ => s.content.clone(),
    };
    let handlers = r##"<transition event="error.execution"><script>mark('err', 'error.execution')</script></transition>
  <transition event="error.communication"><script>mark('err', 'error.communication')</script></transition>
  <transition event="error"><script>mark('err', _event.name)</script></transition>
  <transition event="probe"><script>mark('probe')</script></transition>"##;
    if placement == 1 || placement == 2 {
        let (onexit_a, onentry_b) = if placement == 2 { (format!("<onexit>{}</onexit>", wrapped), String::new()) } else { (String::new(), format!("<onentry>{}</onentry>", wrapped)) };
        return format!(
            r##"<scxml xmlns="http://www.w3.org/2005/07/scxml" version="1.0" datamodel="{dm}" initial="top">
 <datamodel><data id="v" expr="1"/><data id="tv" expr="'#_internal'"/><data id="ev" expr="'x'"/></datamodel>
 <state id="top" initial="a">
  {handlers}
  <transition event="*"><script>mark('other', _event.name)</script></transition>
  <state id="a">{onexit_a}
   <transition event="go" target="b"><script>mark('go-begin')</script><script>mark('go-end')</script></transition>
  </state>
  <state id="b">{onentry_b}</state>
 </state>
</scxml>"##,
            dm = dm,
            handlers = handlers,
            onexit_a = onexit_a,
            onentry_b = onentry_b
        );
    }
    format!(
        r##"<scxml xmlns="http://www.w3.org/2005/07/scxml" version="1.0" datamodel="{dm}" initial="a">
 <datamodel><data id="v" expr="1"/><data id="tv" expr="'#_internal'"/><data id="ev" expr="'x'"/></datamodel>
 <state id="a">
  <transition event="go">
   <script>mark('go-begin')</script>
   {content}
   <script>mark('go-end')</script>
  </transition>
  {handlers}
  {extra}
  <transition event="*"><script>mark('other', _event.name)</script></transition>
 </state>
</scxml>"##,
        dm = dm,
        content = wrapped,
        handlers = handlers,
        extra = s.state_extra
    )
}

const WITNESS: &str = r##"<scxml xmlns="http://www.w3.org/2005/07/scxml" version="1.0" datamodel="rfsm-expression" initial="w">
 <state id="w"><transition event="probe"><script>mark('witness-probe')</script><send event="self.echo"/></transition><transition event="self.echo"><script>mark('witness-echo')</script></transition></state></scxml>"##;

fn wait_q(r: &mut Running, sent: u64) -> Result<(), String> {
    let t0 = Instant::now();
    loop {
        match rec::wait_idle_stable(r.tracer, sent, Duration::from_millis(25), Duration::from_millis(300)) {
            Wait::Idle => return Ok(()),
            Wait::Finished => return Err("session ended".into()),
            Wait::Timeout => {}
        }
        if r.session.thread.as_ref().map(|h| h.is_finished()).unwrap_or(false) {
            return Err("session thread is gone".into());
        }
        if rec::overflowed() {
            return Err("runaway (log cap reached)".into());
        }
        if t0.elapsed() > Duration::from_secs(20) {
            return Err("watchdog".into());
        }
    }
}

pub fn run(args: &Args, rep: &mut Report) {
    // every scenario in its own process: a panic may poison process-global state (data model
    // factories, panic counters) and must not be attributed to the scenarios that follow
    let dms: Vec<&str> = if cfg!(feature = "full") { vec!["rfsm-expression", "ecmascript"] } else { vec!["rfsm-expression"] };
    let exe = std::env::current_exe().unwrap();
    let dir = args.out.join(format!("c12-{}", args.shard));
    let _ = std::fs::create_dir_all(&dir);
    let mut idx = 0;
    for dm in &dms {
        let n = scenarios(dm).len();
        for kk in 0..n * PLACEMENTS {
            let (k, placement) = (kk % n, kk / n);
            // quick: one placement per scenario, rotating with the seed; thorough: all placements
            if !args.thorough() && placement != (k + args.seed as usize) % PLACEMENTS {
                continue;
            }
            {
                let sc = &scenarios(dm)[k];
                if placement != 0 && (!sc.state_extra.is_empty() || sc.content.is_empty()) {
                    if args.thorough() {
                        continue;
                    }
                }
            }
            idx += 1;
            if !args.mine(idx) {
                continue;
            }
            rep.count(&format!("placement_{}", ["transition", "onentry", "onexit", "if-branch", "foreach-body"][placement]), 1);
            let out = dir.join(format!("{}-{}-{}.json", dm, k, placement));
            let _ = std::fs::remove_file(&out);
            let st = std::process::Command::new(&exe)
                .arg("c12case")
                .arg(dm)
                .arg((k + 1000 * placement).to_string())
                .arg(&out)
                .stdout(std::process::Stdio::null())
                .stderr(std::process::Stdio::null())
                .status();
            rep.evaluations += 1;
            let text = std::fs::read_to_string(&out).unwrap_or_default();
            let v: serde_json::Value = match serde_json::from_str(&text) {
                Ok(v) => v,
                Err(_) => {
                    let s = &scenarios(dm)[k];
                    rep.violation(
                        &format!("process-died:{}:{}", s.class, s.name),
                        &format!("[{} / {} / {}] the process running the scenario died ({:?})", dm, s.class, s.name, st.map(|x| x.to_string())),
                        json!({"datamodel": dm, "class": s.class, "scenario": s.name, "xml": doc(dm, s)}),
                    );
                    continue;
                }
            };
            if v["rejected"].as_bool() == Some(true) {
                rep.count("documents_rejected_by_reader", 1);
                continue;
            }
            let class = v["class"].as_str().unwrap_or("").to_string();
            let errs: Vec<String> = v["errs"].as_array().map(|a| a.iter().filter_map(|x| x.as_str().map(|s| s.to_string())).collect()).unwrap_or_default();
            if v["fired"].as_bool() == Some(true) {
                rep.nontrivial_key(&format!("{}:{}:{}", dm, class, v["scenario"].as_str().unwrap_or("")));
                rep.count(&format!("class_{}", class), 1);
            }
            for e in &errs {
                rep.count(&format!("error_events_{}", e), 1);
            }
            if rep.samples.len() < rep.max_samples {
                rep.sample(json!({"datamodel": dm, "class": class, "scenario": v["scenario"], "content": v["content"], "error_events_seen": errs, "probe_processed": v["probe_seen"]}));
            }
            if let Some(ps) = v["problems"].as_array() {
                for p in ps {
                    rep.violation(p["key"].as_str().unwrap_or("?"), p["what"].as_str().unwrap_or("?"), v["witness"].clone());
                }
            }
        }
    }
}

/// child process: one scenario
pub fn case_main(dm: &str, k: usize, out: &str) -> i32 {
    let all = scenarios(dm);
    let (k, placement) = (k % 1000, k / 1000);
    let s = &all[k];
    let mut result = json!({"class": s.class, "scenario": s.name, "content": s.content});
    {
        let xml = doc_placed(dm, s, placement);
        let wit = json!({"datamodel": dm, "class": s.class, "scenario": s.name, "placement": placement, "xml": xml, "events_after_go": s.events.iter().map(|e| e.chars().take(60).collect::<String>()).collect::<Vec<_>>()});
        let mut case = Case::new();
        let wfsm = parse_xml(WITNESS).unwrap();
        let mut witness = case.start(wfsm);
        let _ = wait_q(&mut witness, 0);
        let fsm = match parse_xml(&xml) {
            Ok(f) => f,
            Err(_) => {
                result["rejected"] = json!(true);
                let _ = std::fs::write(out, result.to_string());
                return 0;
            }
        };
        let mut r = case.start(fsm);
        let mut problems: Vec<(String, String)> = Vec::new();
        let mut sent = 0u64;
        let mut alive = true;
        if let Err(e) = wait_q(&mut r, sent) {
            problems.push((format!("wedged-at-start:{}", e.replace(' ', "-")), format!("the session did not reach its first idle point: {}", e)));
            alive = false;
        }
        if alive {
            r.send("go");
            sent += 1;
            if let Err(e) = wait_q(&mut r, sent) {
                problems.push((format!("wedged:{}", e.replace(' ', "-")), format!("after the failing operation the session does not become idle: {}", e)));
                alive = false;
            }
        }
        if alive {
            for ev in &s.events {
                let _ = r.session.sender.send(Box::new(Event::new_simple(ev)));
                sent += 1;
                if let Err(e) = wait_q(&mut r, sent) {
                    problems.push((format!("wedged:{}", e.replace(' ', "-")), format!("after event {:?} the session does not become idle: {}", ev.chars().take(40).collect::<String>(), e)));
                    alive = false;
                    break;
                }
            }
        }
        if alive {
            r.send("probe");
            sent += 1;
            if let Err(e) = wait_q(&mut r, sent) {
                problems.push((format!("wedged:{}", e.replace(' ', "-")), format!("the probe event is not processed: {}", e)));
                alive = false;
            }
        }
        let cancelled = if alive { r.finish() } else { false };
        if alive && !cancelled {
            problems.push(("cannot-be-cancelled".into(), "the cancel event did not end the session".into()));
        }
        witness.send("probe");
        let wok = wait_q(&mut witness, 2).is_ok();
        witness.finish();
        // give invoked children a moment to end after their parent was cancelled
        let t0 = Instant::now();
        while t0.elapsed() < Duration::from_secs(3) && rec::session_threads().iter().any(|(_, fin)| !*fin) {
            std::thread::sleep(Duration::from_millis(10));
        }
        let threads = rec::session_threads();
        let log = rec::take_log();
        let panics = crate::phook::take_panics();
        for p in &panics {
            // a panic that was caught inside the platform and after which the thread's session ran to its
            // regular end is not a crash of the session thread
            let survived = threads.iter().any(|(n, fin)| *n == p.thread && *fin);
            if (p.thread.starts_with("fsm_") && !survived) || p.thread.contains("imer") {
                problems.push((
                    format!("thread-panic:{}", p.location),
                    format!("thread {} panicked: {} @ {}", p.thread, p.message.chars().take(160).collect::<String>(), p.location),
                ));
            }
        }
        let witness_marks = log.iter().filter(|e| matches!(&e.ev, Ev::Mark { tag, .. } if tag == "witness-echo")).count();
        if !wok || witness_marks != 1 {
            problems.push(("witness-session-broken".into(), "a healthy session of the same executor no longer works (its send through the shared I/O processor does not arrive)".into()));
        }
        let mut errs: Vec<String> = Vec::new();
        let mut probe_seen = false;
        for e in &log {
            if let Ev::Mark { tag, args, session, .. } = &e.ev {
                if *session != r.session.session_id {
                    continue;
                }
                if tag == "err" {
                    if let Some(V::Str(s)) = args.first() {
                        errs.push(s.clone());
                    }
                }
                if tag == "probe" {
                    probe_seen = true;
                }
            }
        }
        if alive && !probe_seen {
            problems.push(("probe-not-processed".into(), "the probe event left no trace".into()));
        }
        match &s.expect {
            Expect::Error(name) => {
                if alive && !errs.iter().any(|x| x == name) {
                    problems.push((
                        format!("missing-error-event:{}:{}:{}", s.class, s.name, name),
                        format!("{} must be placed on the internal queue, observed error events: {:?}", name, errs),
                    ));
                }
            }
            Expect::AnyError => {
                if alive && errs.is_empty() {
                    problems.push((format!("missing-error-event:{}:{}", s.class, s.name), "no error event at all".into()));
                }
            }
            Expect::NoCrash => {}
        }
        problems.dedup_by(|a, b| a.0 == b.0);
        result["fired"] = json!(!errs.is_empty() || s.expect == Expect::NoCrash);
        result["errs"] = json!(errs);
        result["probe_seen"] = json!(probe_seen);
        result["witness"] = wit;
        result["problems"] = json!(problems.iter().map(|(k, w)| json!({"key": k, "what": format!("[{} / {} / {}] {}", dm, s.class, s.name, w)})).collect::<Vec<_>>());
    }
    let _ = std::fs::write(out, result.to_string());
    0
}
