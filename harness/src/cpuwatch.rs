//! Runs closures on a helper thread under a *CPU-time* budget (the thread's own CPU clock, not the wall clock):
//! a pure function over a few kilobytes that has burnt tens of seconds of CPU time is a runaway whatever the load
//! of the machine is.  A runaway thread cannot be stopped: it is abandoned (a new helper is started for the next
//! job) and the caller ends its shard soon afterwards.
use std::os::unix::thread::JoinHandleExt;
use std::sync::mpsc::{channel, RecvTimeoutError, Sender};
use std::sync::Mutex;
use std::time::Duration;

pub enum Budgeted<T> {
    Done(T),
    /// CPU seconds consumed when the budget was exceeded
    Runaway(f64),
    /// the helper could not be started / ended without a result (inconclusive)
    Unknown(String),
}

fn thread_cpu_seconds(t: libc::pthread_t) -> Option<f64> {
    unsafe {
        let mut cid: libc::clockid_t = 0;
        if libc::pthread_getcpuclockid(t, &mut cid) != 0 {
            return None;
        }
        let mut ts: libc::timespec = std::mem::zeroed();
        if libc::clock_gettime(cid, &mut ts) != 0 {
            return None;
        }
        Some(ts.tv_sec as f64 + ts.tv_nsec as f64 * 1e-9)
    }
}

type Job = Box<dyn FnOnce() + Send + 'static>;

struct Helper {
    tx: Sender<Job>,
    pt: libc::pthread_t,
    _handle: std::thread::JoinHandle<()>,
}

static HELPER: Mutex<Option<Helper>> = Mutex::new(None);

fn start_helper() -> Result<Helper, String> {
    let (tx, rx) = channel::<Job>();
    let h = std::thread::Builder::new()
        .name("budgeted".into())
        .spawn(move || {
            while let Ok(job) = rx.recv() {
                job();
            }
        })
        .map_err(|e| e.to_string())?;
    let pt = h.as_pthread_t() as libc::pthread_t;
    Ok(Helper { tx, pt, _handle: h })
}

pub fn run<T: Send + 'static>(budget_cpu_secs: f64, f: impl FnOnce() -> T + Send + 'static) -> Budgeted<T> {
    let mut guard = match HELPER.lock() {
        Ok(g) => g,
        Err(p) => p.into_inner(),
    };
    if guard.is_none() {
        match start_helper() {
            Ok(h) => *guard = Some(h),
            Err(e) => return Budgeted::Unknown(e),
        }
    }
    let (rtx, rrx) = channel::<T>();
    let (pt, sent) = {
        let h = guard.as_ref().unwrap();
        let job: Job = Box::new(move || {
            // a panic of the job must not take the helper down
            let r = std::panic::catch_unwind(std::panic::AssertUnwindSafe(f));
            if let Ok(v) = r {
                let _ = rtx.send(v);
            }
        });
        (h.pt, h.tx.send(job).is_ok())
    };
    if !sent {
        *guard = None;
        return Budgeted::Unknown("helper thread is gone".into());
    }
    let cpu0 = thread_cpu_seconds(pt).unwrap_or(0.0);
    let mut wait = Duration::from_micros(200);
    loop {
        match rrx.recv_timeout(wait) {
            Ok(v) => return Budgeted::Done(v),
            Err(RecvTimeoutError::Disconnected) => return Budgeted::Unknown("the job panicked outside its own catch_unwind".into()),
            Err(RecvTimeoutError::Timeout) => {}
        }
        if wait < Duration::from_millis(100) {
            wait *= 2;
        }
        if let Some(c) = thread_cpu_seconds(pt) {
            if c - cpu0 > budget_cpu_secs {
                // abandon the helper: the next job gets a fresh one
                *guard = None;
                return Budgeted::Runaway(c - cpu0);
            }
        }
    }
}
