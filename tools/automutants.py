#!/usr/bin/env python3
"""Mechanical mutation analysis of the monitors (not a check; a tool to look for workload / oracle gaps).

  tools/automutants.py --n 30 --seed 7 [--lcov .runs/coverage/lcov.info] [--group core]

Picks N single-line mutation sites in /repo/src (only lines the quick tiers execute when an lcov file is given),
and for each one: applies it to a scratch worktree of /repo (S=/tmp/mutauto), runs the pinned tests (a mutant that
does not compile or fails them is dropped: the interesting ones are those the test suite cannot see), then runs
the quick tier of the checks associated with the file from a scratch copy of the committed /verif until one of
them reports a VIOLATION. Results: $S/results.jsonl, patches: $S/patches/<n>.diff. Survivors are either
equivalent mutants or gaps - they are looked at by hand.
"""
import argparse, json, os, random, re, subprocess, sys, time

GROUPS = {
    "core": (["src/fsm.rs"], ["C02", "C01", "C03", "C06", "C07", "C14", "C09", "C13", "C12"]),
    "content": (["src/executable_content.rs"], ["C08", "C15", "C16", "C14", "C12", "C03"]),
    "reader": (["src/scxml_reader.rs"], ["C04", "C02"]),
    "serializer": (["src/serializer/fsm_writer.rs", "src/serializer/fsm_reader.rs", "src/serializer/default_protocol_writer.rs",
                    "src/serializer/default_protocol_reader.rs"], ["C05", "C18"]),
    "expr": (["src/expression_engine/lexer.rs", "src/expression_engine/parser.rs", "src/expression_engine/expressions.rs",
              "src/datamodel/mod.rs"], ["C10", "C11", "C08"]),
    "datamodel": (["src/datamodel/expression_engine.rs", "src/datamodel/ecma_script.rs"], ["C08", "C09", "C15", "C10"]),
    "io": (["src/scxml_event_io_processor.rs", "src/fsm_executor.rs"], ["C15", "C14", "C13", "C12", "C17"]),
    "http": (["src/basic_http_event_io_processor.rs"], ["C20"]),
}

OPS = [
    (re.compile(r" == "), " != "),
    (re.compile(r" != "), " == "),
    (re.compile(r" < "), " <= "),
    (re.compile(r" <= "), " < "),
    (re.compile(r" > "), " >= "),
    (re.compile(r" >= "), " > "),
    (re.compile(r" && "), " || "),
    (re.compile(r" \|\| "), " && "),
    (re.compile(r"\bif !"), "if "),
    (re.compile(r"\btrue\b"), "false"),
    (re.compile(r"\bfalse\b"), "true"),
    (re.compile(r" \+ 1\b"), " + 0"),
    (re.compile(r" - 1\b"), " - 0"),
]
SKIP = re.compile(r"^\s*(//|#\[|use |pub use |mod |debug!|info!|error!|warn!|println!|eprintln!|panic!|todo!|assert|fn |pub fn |impl |struct |enum |type |const |static |\}|\{)|trace|Trace|tracer|get_logger|\.log\(")
STMT = re.compile(r"^\s*(self|[a-z_][A-Za-z0-9_]*)(\.[A-Za-z_][A-Za-z0-9_]*)+\(.*\);\s*$")


def sh(cmd, **kw):
    return subprocess.run(cmd, shell=True, text=True, capture_output=True, **kw)


def covered_lines(lcov, repo):
    cov = {}
    if not lcov or not os.path.exists(lcov):
        return None
    cur = None
    for l in open(lcov):
        l = l.strip()
        if l.startswith("SF:"):
            p = l[3:]
            cur = p.split("/src/", 1)[1] if "/src/" in p else None
            if cur:
                cur = "src/" + cur
        elif l.startswith("DA:") and cur:
            n, c = l[3:].split(",")[:2]
            if int(c) > 0:
                cov.setdefault(cur, set()).add(int(n))
    return cov


def sites(repo, files, cov):
    out = []
    for f in files:
        lines = open(os.path.join(repo, f)).read().split("\n")
        in_tests = False
        for i, line in enumerate(lines, 1):
            if re.match(r"^\s*mod tests\b", line) or "#[cfg(test)]" in line:
                in_tests = True
            if in_tests or SKIP.search(line):
                continue
            if cov is not None and i not in cov.get(f, set()):
                continue
            for k, (rx, rep) in enumerate(OPS):
                for m in rx.finditer(line):
                    out.append((f, i, "op%d" % k, line[: m.start()] + rep + line[m.end():]))
            if STMT.match(line) and "return" not in line:
                out.append((f, i, "delete", re.match(r"^\s*", line).group(0) + "// (statement removed)"))
    return out


def main():
    ap = argparse.ArgumentParser()
    ap.add_argument("--n", type=int, default=20)
    ap.add_argument("--seed", type=int, default=1)
    ap.add_argument("--group", default="core")
    ap.add_argument("--lcov", default="")
    ap.add_argument("--lines", default="", help="restrict to a line range a-b of the group's first file")
    ap.add_argument("--scratch", default=os.environ.get("S", "/tmp/mutauto"))
    ap.add_argument("--max-checks", type=int, default=9)
    a = ap.parse_args()
    S = a.scratch
    files, checks = GROUPS[a.group]
    checks = checks[: a.max_checks]
    os.makedirs(S + "/patches", exist_ok=True)
    verif = os.path.dirname(os.path.dirname(os.path.abspath(__file__)))
    if not os.path.isdir(S + "/repo"):
        sh("git -C /repo worktree add --detach %s/repo HEAD -q" % S)
    sh("git -C %s/repo checkout -q --detach $(git -C /repo rev-parse HEAD); git -C %s/repo checkout -q -- ." % (S, S))
    os.makedirs(S + "/verif", exist_ok=True)
    sh("find %s/verif -mindepth 1 -maxdepth 1 ! -name .target ! -name .runs ! -name witness -exec rm -rf {} +" % S)
    sh("git -C %s archive HEAD | tar -x -C %s/verif" % (verif, S))
    cov = covered_lines(a.lcov, S + "/repo")
    cand = sites(S + "/repo", files, cov)
    if a.lines:
        lo, hi = [int(x) for x in a.lines.split("-")]
        cand = [c for c in cand if c[0] == files[0] and lo <= c[1] <= hi]
    rnd = random.Random(a.seed)
    rnd.shuffle(cand)
    print("candidate sites: %d (files %s, coverage filter %s)" % (len(cand), files, "on" if cov is not None else "off"), flush=True)
    done = 0
    res_path = S + "/results.jsonl"
    base = sum(1 for _ in open(res_path)) if os.path.exists(res_path) else 0
    for f, ln, op, new in cand:
        if done >= a.n:
            break
        p = os.path.join(S, "repo", f)
        lines = open(p).read().split("\n")
        old = lines[ln - 1]
        lines[ln - 1] = new
        open(p, "w").write("\n".join(lines))
        ident = "%s-%d" % (a.group, base + done)
        rec = {"id": ident, "file": f, "line": ln, "op": op, "old": old.strip(), "new": new.strip(), "seed": a.seed}
        t = sh("cd %s/repo && CARGO_NET_OFFLINE=true timeout 1200 cargo test --workspace --no-fail-fast --offline 2>&1 | grep -E '^test result|^error|FAILED' | head -5" % S)
        ok = re.search(r"test result: ok\. 5[0-9] passed", t.stdout) and "FAILED" not in t.stdout and "error" not in t.stdout
        if not ok:
            sh("git -C %s/repo checkout -q -- ." % S)
            continue  # not a mutant the suite lets through
        diff = sh("git -C %s/repo diff -- src" % S).stdout
        open("%s/patches/%s.diff" % (S, ident), "w").write(diff)
        rec["verdicts"] = {}
        rec["caught_by"] = None
        t0 = time.time()
        for c in checks:
            r = sh("cd %s/verif && VERIF_REPO=%s/repo VERIF_TARGET=%s/target timeout 2400 ./check %s --tier quick --seed 1 2>&1 | grep -v '^KNOWN' | tail -4" % (S, S, S, c))
            last = r.stdout.strip().split("\n")
            v = "VIOLATION" if any(x.startswith("VIOLATION") for x in last) else ("HELD" if any(" HELD " in x for x in last) else "OTHER")
            rec["verdicts"][c] = v if v != "OTHER" else "OTHER: " + " | ".join(last)[-300:]
            if v == "VIOLATION":
                rec["caught_by"] = c
                break
        rec["wall_s"] = round(time.time() - t0)
        open(res_path, "a").write(json.dumps(rec) + "\n")
        print(json.dumps(rec), flush=True)
        sh("git -C %s/repo checkout -q -- ." % S)
        done += 1
    print("done: %d mutants" % done)


if __name__ == "__main__":
    main()
