//! C14 – invoked child sessions follow the SCXML invoke life cycle.
use crate::expr_ref::V;
use crate::rec::{self, Entry, Ev, Wait};
use crate::report::{Args, Report};
use crate::rng::Rng;
use crate::session::{parse_xml, Case, Running};
use serde_json::json;
use std::collections::{BTreeMap, HashMap};
use std::time::{Duration, Instant};

#[derive(Clone, Debug)]
struct Params {
    dm: &'static str,
    /// events the child sends before it finishes (Finish) or per burst (Stream)
    n_child_events: usize,
    stream: bool,
    /// leave the invoking state after that many child events were processed (None: wait for done.invoke)
    leave_after: Option<usize>,
    reenter: usize,
    two_invokes: bool,
    autoforward: bool,
    explicit_id: bool,
    via_src_file: bool,
    host_events: usize,
    /// a nested state of the invoking state carries an <invoke> whose argument cannot be evaluated (0 = none):
    /// the invoke step raises error.execution while the working invokes of the same step must start exactly once
    failing_invoke: usize,
}

fn child_doc(p: &Params, tag: &str) -> String {
    let mut sends = String::new();
    for i in 0..p.n_child_events {
        sends.push_str(&format!(
            "<send event=\"c.{tag}\" target=\"#_parent\"><param name=\"seq\" expr=\"{i}\"/><param name=\"tag\" expr=\"'{tag}'\"/><param name=\"sid\" expr=\"_sessionid\"/></send>",
            tag = tag,
            i = i
        ));
    }
    let undefined_probe = if p.dm == "ecmascript" { "typeof x !== 'undefined'" } else { "isDefined(x)" };
    let body = if p.stream {
        format!(
            r##"<state id="run"><onentry>{sends}<send event="tick" delay="1ms"/></onentry>
   <transition event="tick"><send event="c.{tag}" target="#_parent"><param name="seq" expr="n"/><param name="tag" expr="'{tag}'"/><param name="sid" expr="_sessionid"/></send><assign location="n" expr="n + 1"/><send event="tick" delay="1ms"/></transition>
   <transition event="h"><script>mark('fwd', _event.name, _event.data)</script></transition>
   <transition event="c"><script>mark('fwd-own', _event.name)</script></transition>
  </state>"##,
            sends = sends,
            tag = tag
        )
    } else {
        format!(
            r##"<state id="run"><onentry>{sends}<raise event="finish"/></onentry>
   <transition event="finish" target="cfin"/>
   <transition event="h"><script>mark('fwd', _event.name, _event.data)</script></transition>
  </state><final id="cfin"><onentry><script>mark('child-final', '{tag}')</script></onentry>
   <onexit><send event="c.{tag}" target="#_parent"><param name="seq" expr="{n}"/><param name="tag" expr="'{tag}'"/><param name="sid" expr="_sessionid"/></send></onexit></final>"##,
            sends = sends,
            tag = tag,
            n = p.n_child_events
        )
    };
    format!(
        r##"<scxml xmlns="http://www.w3.org/2005/07/scxml" version="1.0" name="child-{tag}" datamodel="{dm}" initial="pre">
 <datamodel><data id="a" expr="-1"/><data id="b" expr="-1"/><data id="n" expr="{n0}"/></datamodel>
 <state id="pre"><onentry><script>mark('hello', '{tag}')</script><script>mark('params', '{tag}', a, b, {undef})</script></onentry><transition target="run"/></state>
 {body}
</scxml>"##,
        tag = tag,
        dm = p.dm,
        n0 = p.n_child_events,
        undef = undefined_probe,
        body = body
    )
}

fn parent_doc(p: &Params, dir: &std::path::Path) -> String {
    let mk_invoke = |tag: &str, fin: &str| -> String {
        let id = if p.explicit_id { format!(" id=\"inv-{}\"", tag) } else { format!(" idlocation=\"id_{}\"", tag) };
        let af = if p.autoforward { " autoforward=\"true\"" } else { "" };
        let inner = format!(
            "<param name=\"b\" expr=\"pv + 1\"/><param name=\"x\" expr=\"99\"/><finalize><script>mark('{fin}', _event.name, _event.data.seq)</script><assign location=\"finalized\" expr=\"finalized + 1\"/></finalize>",
            fin = fin
        );
        if p.via_src_file {
            // resolved through the executor's include path (the reader does not take absolute file: URIs)
            let path = dir.join(format!("child-{}.scxml", tag));
            let _ = std::fs::write(&path, child_doc(p, tag));
            format!("<invoke{id}{af} type=\"scxml\" src=\"child-{tag}.scxml\" namelist=\"a\">{inner}</invoke>", id = id, af = af, tag = tag, inner = inner)
        } else {
            format!("<invoke{id}{af} namelist=\"a\">{inner}<content>{child}</content></invoke>", id = id, af = af, inner = inner, child = child_doc(p, tag))
        }
    };
    let invokes = if p.two_invokes {
        format!("{}\n{}", mk_invoke("k1", "fin-k1"), mk_invoke("k2", "fin-k2"))
    } else {
        mk_invoke("k1", "fin-k1")
    };
    let (inv_initial, broken) = match p.failing_invoke {
        0 => ("", String::new()),
        k => {
            let b = match k {
                1 => "<invoke srcexpr=\"noSuchVar.uri\"/>",
                2 => "<invoke namelist=\"noSuchVar\" src=\"unused.scxml\"/>",
                _ => "<invoke typeexpr=\"noSuchVar.t\" src=\"unused.scxml\"/>",
            };
            (
                " initial=\"inv_a\"",
                format!("<state id=\"inv_a\">{}<transition event=\"error.execution\" target=\"inv_b\"><script>mark('perr')</script></transition></state><state id=\"inv_b\"/>", b),
            )
        }
    };
    format!(
        r##"<scxml xmlns="http://www.w3.org/2005/07/scxml" version="1.0" name="parent" datamodel="{dm}" initial="idle">
 <datamodel><data id="a" expr="7"/><data id="pv" expr="40"/><data id="finalized" expr="0"/><data id="id_k1" expr="''"/><data id="id_k2" expr="''"/></datamodel>
 <state id="idle">
  <transition event="enter" target="inv"/>
  <transition event="blink" target="flash"/>
 </state>
 <state id="flash">
  <invoke id="never"><content>{never}</content></invoke>
  <onentry><script>mark('flash-entered')</script></onentry>
  <transition target="idle"/>
 </state>
 <state id="inv"{inv_initial}>
  <onentry><script>mark('inv-entered')</script></onentry>
  <onexit><script>mark('inv-exited')</script></onexit>
  {invokes}
  {broken}
  <transition event="c" cond="mark('pcg', finalized, _event.data.seq)"><script>mark('pc', _event.name, _event.invokeid, _event.data.seq, _event.data.tag, _event.data.sid)</script></transition>
  <transition event="done.invoke"><script>mark('pdone', _event.name, _event.invokeid)</script></transition>
  <transition event="h"><script>mark('ph', _event.name)</script></transition>
  <transition event="ids"><script>mark('ids', id_k1, id_k2)</script></transition>
  <transition event="leave" target="after"/>
 </state>
 <state id="after">
  <transition event="c"><script>mark('late-pc', _event.name, _event.invokeid, _event.data.seq)</script></transition>
  <transition event="done.invoke"><script>mark('late-pdone', _event.name)</script></transition>
  <transition event="back" target="inv"/>
 </state>
</scxml>"##,
        dm = p.dm,
        invokes = invokes,
        inv_initial = inv_initial,
        broken = broken,
        never = child_doc(p, "never")
    )
}

fn count_marks(tag: &str, session: u32) -> usize {
    rec::snapshot_log()
        .iter()
        .filter(|e| matches!(&e.ev, Ev::Mark { tag: t, session: s, .. } if t == tag && *s == session))
        .count()
}

fn wait_until(mut f: impl FnMut() -> bool, t: Duration) -> bool {
    let t0 = Instant::now();
    while t0.elapsed() < t {
        if f() {
            return true;
        }
        std::thread::sleep(Duration::from_millis(2));
    }
    f()
}

fn s_arg(args: &[V], i: usize) -> String {
    match args.get(i) {
        Some(V::Str(s)) => s.clone(),
        Some(V::Int(x)) => x.to_string(),
        Some(V::Dbl(x)) => format!("{}", *x as i64),
        _ => String::new(),
    }
}

struct Outcome {
    violations: Vec<(String, String)>,
    inconclusive: Option<String>,
    outcome_orders: Vec<String>,
    xml: String,
    child_events_processed: usize,
    forwarded: usize,
    perr: usize,
    guard_probes: usize,
}

fn scenario(p: &Params, dir: &std::path::Path) -> Outcome {
    let xml = parent_doc(p, dir);
    let mut out = Outcome {
        violations: vec![],
        inconclusive: None,
        outcome_orders: vec![],
        xml: xml.clone(),
        child_events_processed: 0,
        forwarded: 0,
        perr: 0,
        guard_probes: 0,
    };
    let mut case = Case::new();
    case.executor.set_include_paths(&vec![dir.to_path_buf()]);
    let fsm = match parse_xml(&xml) {
        Ok(f) => f,
        Err(e) => {
            out.inconclusive = Some(format!("parent rejected: {}", e));
            return out;
        }
    };
    let mut r = case.start(fsm);
    let pid = r.session.session_id;
    let stable = |r: &mut Running, n: u64| rec::wait_idle_stable(r.tracer, n, Duration::from_millis(15), Duration::from_secs(60)) == Wait::Idle;
    // watchdogs are generous (they return as soon as the condition holds); when one fires, the
    // verdicts that need a complete history are only drawn where the log itself proves completeness
    let mut done_wait_timed_out = false;
    let mut children_ended_at_timeout = 0usize;
    let mut incomplete: Option<String> = None;
    let ended_children = |pid: u32| -> usize {
        let l = rec::snapshot_log();
        let tids: Vec<u64> = l
            .iter()
            .filter_map(|e| match &e.ev {
                Ev::Mark { tag, parent_session, args, .. } if tag == "hello" && *parent_session == Some(pid) && s_arg(args, 0) != "never" => Some(e.tid),
                _ => None,
            })
            .collect();
        tids.iter().filter(|t| l.iter().any(|e| e.tid == **t && matches!(&e.ev, Ev::MOut(m) if m == "interpret"))).count()
    };
    stable(&mut r, 0);
    // state entered and exited within one macrostep: its invoke must not start
    r.send("blink");
    stable(&mut r, 1);
    let n_inv = if p.two_invokes { 2 } else { 1 };
    let mut entries = 0;
    for round in 0..=p.reenter {
        r.send(if round == 0 { "enter" } else { "back" });
        entries += 1;
        // children say hello
        let ok = wait_until(|| rec::snapshot_log().iter().filter(|e| matches!(&e.ev, Ev::Mark { tag, parent_session, args, .. } if tag == "hello" && *parent_session == Some(pid) && s_arg(args, 0) != "never")).count() >= entries * n_inv, Duration::from_secs(90));
        if !ok {
            out.violations.push(("invoke-not-started".into(), format!("entry #{} of the invoking state: {} invokes did not all start", entries, n_inv)));
            break;
        }
        r.send("ids");
        for k in 0..p.host_events {
            let mut ev = rufsm::fsm::Event::new_simple(&format!("h.{}.{}", round, k));
            ev.param_values = Some(vec![rufsm::fsm::ParamPair::new("k", &rufsm::datamodel::Data::Integer(k as i64))]);
            r.send_event(ev);
        }
        match p.leave_after {
            Some(n) => {
                let target = out.child_events_processed + n;
                if !wait_until(|| count_marks("pc", pid) >= target, Duration::from_secs(90)) {
                    incomplete = Some("child events did not arrive within the watchdog".into());
                }
            }
            None => {
                let want = entries * n_inv;
                if !wait_until(|| count_marks("pdone", pid) >= want, Duration::from_secs(90)) {
                    done_wait_timed_out = true;
                    // children that had ended by now had sent their done.invoke before "leave" is sent below
                    children_ended_at_timeout = ended_children(pid);
                }
            }
        }
        // let the host events through
        let ph_want = entries * p.host_events;
        if !wait_until(|| count_marks("ph", pid) >= ph_want, Duration::from_secs(90)) {
            incomplete = Some("host events were not processed within the watchdog".into());
        }
        out.child_events_processed = count_marks("pc", pid);
        r.send("leave");
        if !wait_until(|| count_marks("inv-exited", pid) >= entries, Duration::from_secs(90)) {
            incomplete = Some("the invoking state was not left within the watchdog".into());
        }
        // events a cancelled child still has in flight must be dropped
        std::thread::sleep(Duration::from_millis(20));
    }
    r.finish();
    // cancelled children need a moment to process their cancel event (bounded, generous)
    let all_ended = wait_until(|| rec::session_threads().iter().all(|(_, fin)| *fin), Duration::from_secs(90));
    let log: Vec<Entry> = rec::take_log();
    if let Some(i) = &incomplete {
        out.inconclusive = Some(i.clone());
    }

    // ---- checker ----
    // child sessions: session id -> (tag, thread)
    let mut children: BTreeMap<u32, (String, u64)> = BTreeMap::new();
    for e in &log {
        if let Ev::Mark { tag, args, session, parent_session, .. } = &e.ev {
            if tag == "hello" && *parent_session == Some(pid) {
                children.insert(*session, (s_arg(args, 0), e.tid));
            }
        }
    }
    // (1) never start the invoke of a state left in the same macrostep
    if log.iter().any(|e| matches!(&e.ev, Ev::Mark { tag, .. } if tag == "flash-entered")) {
        if children.values().any(|(t, _)| t == "never") {
            out.violations.push(("invoke-started-for-state-left-in-same-macrostep".into(), "state 'flash' was entered and left in one macrostep but its invoke was started".into()));
        }
    } else {
        out.inconclusive = Some("flash state not entered".into());
    }
    out.perr = log.iter().filter(|e| matches!(&e.ev, Ev::Mark { tag, session, .. } if tag == "perr" && *session == pid)).count();
    // (1b) when the parent waits for its next external event every invoke of the finished macrostep has been handled
    if let Some(n) = log.iter().find_map(|e| match &e.ev {
        Ev::AtIdle { states_to_invoke, .. } if e.tracer == r.tracer && *states_to_invoke > 0 => Some(*states_to_invoke),
        _ => None,
    }) {
        out.violations.push(("invoke-still-pending-when-waiting-for-external-event".into(), format!("{} state(s) were still marked for invocation when the parent blocked on its external queue", n)));
    }
    // (2) exactly once per entry and invoke
    let started = children.values().filter(|(t, _)| t != "never").count();
    if started != entries * n_inv {
        out.violations.push((
            if started > entries * n_inv { "invoke-started-twice" } else { "invoke-not-started" }.to_string(),
            format!("{} entries of the invoking state with {} invoke(s): {} child sessions started", entries, n_inv, started),
        ));
    }
    // (3) params: only declared data
    for e in &log {
        if let Ev::Mark { tag, args, parent_session, .. } = &e.ev {
            if tag == "params" && *parent_session == Some(pid) && s_arg(args, 0) != "never" {
                let a = s_arg(args, 1);
                let b = s_arg(args, 2);
                let x_defined = matches!(args.get(3), Some(V::Bool(true)));
                if a != "7" || b != "41" {
                    out.violations.push(("invoke-params-wrong".into(), format!("child {} sees a={} b={} (namelist a=7, param b=41 expected)", s_arg(args, 0), a, b)));
                }
                if x_defined {
                    out.violations.push(("invoke-param-for-undeclared-data".into(), format!("child {} sees a value for 'x', which it does not declare", s_arg(args, 0))));
                }
            }
        }
    }
    // ids of the invokes as the parent knows them
    let mut invoke_ids: Vec<String> = Vec::new();
    for e in &log {
        if let Ev::Mark { tag, args, session, .. } = &e.ev {
            if tag == "ids" && *session == pid {
                for i in 0..2 {
                    let s = s_arg(args, i);
                    if !s.is_empty() && !invoke_ids.contains(&s) {
                        invoke_ids.push(s);
                    }
                }
            }
        }
    }
    // (4) parent side sequence
    // which invocation (entry of the invoking state) started which child session
    let mut child_round: HashMap<u32, usize> = HashMap::new();
    {
        let mut rnd = 0usize;
        for e in &log {
            if let Ev::Mark { tag, session, parent_session, .. } = &e.ev {
                if tag == "inv-entered" && *session == pid {
                    rnd += 1;
                }
                if tag == "hello" && *parent_session == Some(pid) {
                    child_round.insert(*session, rnd);
                }
            }
        }
    }
    let mut round = 0usize;
    let mut in_inv = false;
    let mut last_fin: Option<(String, String)> = None; // (fin tag, seq) in current macrostep
    let mut fin_count: i64 = 0;
    let mut guard_probes: usize = 0;
    let mut seq_seen: HashMap<String, i64> = HashMap::new(); // per invokeid last seq
    let mut done_seen: HashMap<String, usize> = HashMap::new();
    let mut done_total = 0usize;
    let mut exits = 0;
    let mut pc_after_exit: Vec<String> = Vec::new();
    let mut current_round_ids: Vec<String> = Vec::new();
    let ptid = log.iter().find(|e| e.tracer == r.tracer).map(|e| e.tid);
    for e in &log {
        let mine = e.tracer == r.tracer || matches!(&e.ev, Ev::Mark { session, .. } if *session == pid);
        if !mine {
            continue;
        }
        let _ = ptid;
        match &e.ev {
            Ev::MIn(m) if m == "externalQueue.dequeue" => last_fin = None,
            Ev::Mark { tag, args, .. } => match tag.as_str() {
                "inv-entered" => {
                    // a new invocation may reuse an explicit invoke id: sequence numbers start again
                    round += 1;
                    in_inv = true;
                    current_round_ids.clear();
                    seq_seen.clear();
                    done_seen.clear();
                }
                "inv-exited" => {
                    in_inv = false;
                    exits += 1;
                }
                "pcg" => {
                    // guard probe: evaluated while transitions are selected; the <finalize> of this event's invoke
                    // has run by then (its assignment is visible and its mark precedes the guard's)
                    guard_probes += 1;
                    let seen: i64 = s_arg(args, 0).parse().unwrap_or(-1);
                    if seen != fin_count {
                        out.violations.push((
                            "finalize-not-run-before-transition-selection".into(),
                            format!("while transitions were selected for child event seq {} the parent's data showed {} finalize runs, {} had been started", s_arg(args, 1), seen, fin_count),
                        ));
                    }
                }
                t if t.starts_with("fin-") => {
                    fin_count += 1;
                    if let Some((prev, _)) = &last_fin {
                        if prev != t {
                            out.violations.push((
                                "finalize-of-other-invoke-ran".into(),
                                format!("in one macrostep the <finalize> blocks of two different invokes ran ({} and {})", prev, t),
                            ));
                        }
                    }
                    last_fin = Some((t.to_string(), s_arg(args, 1)));
                }
                "pc" if {
                    // sent by a child session of an earlier (cancelled) invocation?
                    let sid: u32 = s_arg(args, 4).parse().unwrap_or(0);
                    let stale = child_round.get(&sid).map(|r| *r != round).unwrap_or(false);
                    if stale {
                        out.violations.push((
                            if p.explicit_id { "event-of-cancelled-child-processed:invoke-id-reused" } else { "event-of-cancelled-child-processed" }.to_string(),
                            format!(
                                "event {} (seq {}) sent by child session {} of invocation #{} was processed during invocation #{} of the same invoke ({})",
                                s_arg(args, 0),
                                s_arg(args, 2),
                                sid,
                                child_round.get(&sid).cloned().unwrap_or(0),
                                round,
                                s_arg(args, 1)
                            ),
                        ));
                    }
                    stale
                } => {}
                "pc" => {
                    let name = s_arg(args, 0);
                    let iid = s_arg(args, 1);
                    let seq: i64 = s_arg(args, 2).parse().unwrap_or(-1);
                    let ctag = s_arg(args, 3);
                    if iid.is_empty() {
                        out.violations.push(("child-event-without-invokeid".into(), format!("{} from child {} was processed with an empty _event.invokeid", name, ctag)));
                    } else {
                        if p.explicit_id && iid != format!("inv-{}", ctag) {
                            out.violations.push(("child-event-wrong-invokeid".into(), format!("{} from child {} carries invokeid {}", name, ctag, iid)));
                        }
                        if !p.explicit_id {
                            let ok = iid.strip_prefix("inv.").map(|n| !n.is_empty() && n.chars().all(|c| c.is_ascii_digit())).unwrap_or(false);
                            if !ok {
                                out.violations.push(("generated-invokeid-form".into(), format!("generated invoke id {:?} is not inv.<platformid>", iid)));
                            }
                        }
                        if !current_round_ids.contains(&iid) {
                            current_round_ids.push(iid.clone());
                        }
                        // finalize of that invoke ran before, in this macrostep, for this event
                        let want_fin = format!("fin-{}", ctag);
                        match &last_fin {
                            Some((f, s)) if *f == want_fin && *s == seq.to_string() => {}
                            other => out.violations.push((
                                "finalize-not-run-before-transitions".into(),
                                format!("{} (seq {}) of child {} was processed by a transition but the finalize seen in this macrostep is {:?}", name, seq, ctag, other),
                            )),
                        }
                        let last = seq_seen.get(&iid).cloned().unwrap_or(-1);
                        if seq <= last {
                            out.violations.push(("child-events-out-of-order".into(), format!("child event seq {} of {} processed after seq {}", seq, iid, last)));
                        }
                        seq_seen.insert(iid.clone(), seq);
                        if done_seen.contains_key(&iid) {
                            out.violations.push(("child-event-after-done-invoke".into(), format!("{} of {} processed after done.invoke.{}", name, iid, iid)));
                        }
                    }
                    if !in_inv {
                        pc_after_exit.push(name);
                    }
                }
                "late-pc" => {
                    out.violations.push((
                        "child-event-processed-after-cancel".into(),
                        format!("event {} of invoke {} (seq {}) was processed after the parent had exited the invoking state {} time(s)", s_arg(args, 0), s_arg(args, 1), s_arg(args, 2), exits),
                    ));
                }
                "late-pdone" => {
                    out.violations.push(("done-invoke-for-cancelled-child".into(), format!("{} was processed after the invoking state had been exited (the child was cancelled)", s_arg(args, 0))));
                }
                "pdone" => {
                    let name = s_arg(args, 0);
                    let iid = s_arg(args, 1);
                    if name != format!("done.invoke.{}", iid) {
                        out.violations.push(("done-invoke-name".into(), format!("done event {} carries invokeid {}", name, iid)));
                    }
                    done_total += 1;
                    let c = done_seen.entry(iid.clone()).or_insert(0);
                    *c += 1;
                    if *c > 1 {
                        out.violations.push(("done-invoke-twice".into(), format!("{} received {} times", name, c)));
                    }
                    // all events the child sent before finishing must have been processed
                    if !p.stream {
                        let last = seq_seen.get(&iid).cloned().unwrap_or(-1);
                        // (seq 0..n-1 from the running child, seq n from the <onexit> of its top-level final state)
                        if last != p.n_child_events as i64 {
                            out.violations.push((
                                "done-invoke-before-last-child-event".into(),
                                format!("{} processed when only child events up to seq {} of 0..={} had been processed (the last one is sent by the onexit handler of the child's final state)", name, last, p.n_child_events),
                            ));
                        }
                    }
                    out.outcome_orders.push("done.invoke-processed".into());
                }
                _ => {}
            },
            _ => {}
        }
    }
    if p.leave_after.is_some() {
        out.outcome_orders.push("parent-cancelled".into());
    }
    // (5) expected done.invoke when the child finished and the parent waited
    if !p.stream && p.leave_after.is_none() {
        let total: usize = done_total;
        if done_wait_timed_out && children_ended_at_timeout < entries * n_inv {
            // the children had not ended when the watchdog fired and were cancelled afterwards
            out.inconclusive = Some("children did not finish within the watchdog".into());
        } else if total != entries * n_inv {
            out.violations.push(("done-invoke-missing".into(), format!("{} invokes finished, {} done.invoke events were processed", entries * n_inv, total)));
        }
    }
    // (6) cancelled children stop: their session must end (cancel event received)
    for (sid, (tag, tid)) in &children {
        if tag == "never" {
            continue;
        }
        let ended = log.iter().any(|e| e.tid == *tid && matches!(&e.ev, Ev::MOut(m) if m == "interpret"));
        if !ended {
            // 90 s without the cancel event being processed (the watchdog above fired)
            let _ = all_ended;
            out.violations.push(("child-not-cancelled".into(), format!("child session {} ({}) was still running after the parent had exited the invoking state and ended", sid, tag)));
        }
    }
    // (7) autoforward: every external event the parent processed while the child ran reaches the child once
    if p.autoforward && p.host_events > 0 && all_ended && incomplete.is_none() {
        let fwd: Vec<(u32, String, V)> = log
            .iter()
            .filter_map(|e| match &e.ev {
                Ev::Mark { tag, args, session, .. } if tag == "fwd" => Some((*session, s_arg(args, 0), args.get(1).cloned().unwrap_or(V::NoneV))),
                _ => None,
            })
            .collect();
        out.forwarded = fwd.len();
        let ph: Vec<String> = log
            .iter()
            .filter_map(|e| match &e.ev {
                Ev::Mark { tag, args, session, .. } if tag == "ph" && *session == pid => Some(s_arg(args, 0)),
                _ => None,
            })
            .collect();
        for name in &ph {
            // the children of the round in which the event was processed
            let round: usize = name.split('.').nth(1).and_then(|x| x.parse().ok()).unwrap_or(0);
            let n = fwd.iter().filter(|(_, n2, _)| n2 == name).count();
            // streaming children run during the whole stay; finishing children may already be gone
            if p.stream && n != n_inv {
                out.violations.push((
                    "autoforward-missing".into(),
                    format!("external event {} was processed by the parent while {} autoforward child(ren) ran (round {}), {} copies reached children", name, n_inv, round, n),
                ));
                break;
            }
            if n > n_inv {
                out.violations.push(("autoforward-duplicate".into(), format!("external event {} reached children {} times", name, n)));
            }
        }
    }
    if !pc_after_exit.is_empty() {
        out.violations.push(("child-event-processed-after-cancel".into(), format!("child events {:?} processed outside the invoking state", pc_after_exit)));
    }
    out.child_events_processed = seq_seen.len().max(out.child_events_processed);
    out.guard_probes = guard_probes;
    out
}

pub fn run(args: &Args, rep: &mut Report) {
    let mut rng: Rng = args.rng(14);
    let dir = args.out.join(format!("c14-{}", args.shard));
    let _ = std::fs::create_dir_all(&dir);
    let n = args.scale(8, 120);
    let dms: Vec<&'static str> = if cfg!(feature = "full") { vec!["rfsm-expression", "ecmascript"] } else { vec!["rfsm-expression"] };
    for i in 0..n {
        let stream = rng.chance(1, 2);
        let p = Params {
            dm: dms[i % dms.len()],
            n_child_events: rng.below(6),
            stream,
            leave_after: if stream { Some(rng.below(6)) } else if rng.chance(1, 3) { Some(0) } else { None },
            reenter: rng.below(3),
            two_invokes: rng.chance(1, 3),
            autoforward: rng.chance(1, 2),
            explicit_id: rng.chance(1, 2),
            via_src_file: rng.chance(1, 3),
            host_events: if rng.chance(1, 2) { 1 + rng.below(4) } else { 0 },
            failing_invoke: if i % 3 == 2 { 1 + rng.below(3) } else { 0 },
        };
        let o = scenario(&p, &dir);
        rep.evaluations += 1;
        rep.count("child_events_processed_by_parents", o.child_events_processed as u64);
        rep.count("events_forwarded_to_children", o.forwarded as u64);
        rep.count("finalize_visible_in_guard_probes", o.guard_probes as u64);
        rep.count(if p.stream { "template_streaming_child" } else { "template_finishing_child" }, 1);
        if p.two_invokes {
            rep.count("template_two_invokes", 1);
        }
        if p.reenter > 0 {
            rep.count("template_reentered", 1);
        }
        if p.via_src_file {
            rep.count("template_src_file", 1);
        }
        if p.failing_invoke > 0 {
            rep.count("template_failing_invoke_in_same_step", 1);
            rep.count("invoke_step_errors_handled_by_parent", o.perr as u64);
        }
        if p.autoforward && p.host_events > 0 {
            rep.count("template_autoforward_with_host_events", 1);
        }
        for oo in &o.outcome_orders {
            rep.set_add("outcome_orders_seen", oo);
        }
        rep.nontrivial_key(&format!("{:?}:{:?}", (p.stream, p.leave_after.is_some(), p.two_invokes, p.reenter, p.autoforward, p.explicit_id, p.via_src_file), o.outcome_orders));
        if let Some(x) = &o.inconclusive {
            rep.inconclusive(x);
        }
        let mut seen = std::collections::BTreeSet::new();
        for (k, w) in &o.violations {
            if seen.insert(k.clone()) {
                rep.violation(k, &format!("[{}] {}", p.dm, w), json!({"params": format!("{:?}", p), "parent_xml": o.xml}));
            }
        }
        if rep.samples.len() < rep.max_samples {
            rep.sample(json!({"params": format!("{:?}", p), "outcomes": o.outcome_orders, "child_events": o.child_events_processed}));
        }
    }
}
