//! SplitMix64 – the only PRNG of the harness (no external crate).
#[derive(Clone, Debug)]
pub struct Rng(pub u64);

impl Rng {
    pub fn new(seed: u64) -> Rng {
        Rng(seed ^ 0x9E37_79B9_7F4A_7C15)
    }
    pub fn next(&mut self) -> u64 {
        self.0 = self.0.wrapping_add(0x9E37_79B9_7F4A_7C15);
        let mut z = self.0;
        z = (z ^ (z >> 30)).wrapping_mul(0xBF58_476D_1CE4_E5B9);
        z = (z ^ (z >> 27)).wrapping_mul(0x94D0_49BB_1331_11EB);
        z ^ (z >> 31)
    }
    /// uniform in 0..n (n > 0)
    pub fn below(&mut self, n: usize) -> usize {
        (self.next() % (n as u64)) as usize
    }
    pub fn range(&mut self, lo: i64, hi: i64) -> i64 {
        lo + (self.next() % ((hi - lo + 1) as u64)) as i64
    }
    pub fn chance(&mut self, num: u32, den: u32) -> bool {
        (self.next() % den as u64) < num as u64
    }
    pub fn pick<'a, T>(&mut self, v: &'a [T]) -> &'a T {
        &v[self.below(v.len())]
    }
    pub fn fork(&mut self) -> Rng {
        Rng::new(self.next())
    }
    pub fn shuffle<T>(&mut self, v: &mut [T]) {
        for i in (1..v.len()).rev() {
            let j = self.below(i + 1);
            v.swap(i, j);
        }
    }
}

/// FNV-1a 64 – stable hash for distinctness counting (std's hasher is seeded per process).
pub fn fnv(s: &str) -> u64 {
    let mut h: u64 = 0xcbf29ce484222325;
    for b in s.as_bytes() {
        h ^= *b as u64;
        h = h.wrapping_mul(0x100000001b3);
    }
    h
}
