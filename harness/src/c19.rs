//! C19 – event descriptors match by whole dot-separated token prefixes, for all names.
use crate::rec::{self, Ev, Wait};
use crate::report::{Args, Report};
use crate::session::{parse_xml, Case};
use serde_json::json;

/// the independent oracle (statement of C19)
pub fn oracle(descriptors: &[String], name: &str) -> bool {
    for d in descriptors {
        let mut d = d.as_str();
        if let Some(x) = d.strip_suffix(".*") {
            d = x;
        } else if let Some(x) = d.strip_suffix('.') {
            d = x;
        }
        if d == "*" {
            return true;
        }
        let dt: Vec<&str> = d.split('.').collect();
        let nt: Vec<&str> = name.split('.').collect();
        if dt.len() <= nt.len() && dt.iter().zip(nt.iter()).all(|(a, b)| a == b) {
            return true;
        }
    }
    false
}

const TOKENS: [&str; 14] = ["a", "ab", "abc", "A", "aB", "error", "errors", "é", "éa", "e", "日本", "日", "x1", "_"];

fn xml_ok(name: &str) -> bool {
    !name.is_empty() && !name.contains(' ') && !name.contains('"') && !name.contains('<') && !name.contains('&')
}

#[derive(Clone, Copy, PartialEq, Debug)]
enum Delivery {
    Host,
    Raise,
    SendInternal,
}

/// runs one descriptor list against many names in one session; returns (name, matched) pairs
fn probe(list: &[String], names: &[String], delivery: Delivery) -> Result<Vec<(String, Option<bool>)>, String> {
    let desc = list.join(" ");
    let xml = match delivery {
        Delivery::Host => format!(
            "<scxml xmlns=\"http://www.w3.org/2005/07/scxml\" version=\"1.0\" datamodel=\"null\" initial=\"s\">\n<state id=\"s\">\n<transition event=\"{}\"/>\n<transition event=\"*\"/>\n</state>\n</scxml>\n",
            desc
        ),
        _ => {
            let mut body = String::new();
            for n in names {
                if delivery == Delivery::Raise {
                    body.push_str(&format!("<raise event=\"{}\"/>\n", n));
                } else {
                    body.push_str(&format!("<send event=\"{}\" target=\"#_internal\"/>\n", n));
                }
            }
            format!(
                "<scxml xmlns=\"http://www.w3.org/2005/07/scxml\" version=\"1.0\" datamodel=\"rfsm-expression\" initial=\"s\">\n<state id=\"s\">\n<transition event=\"trigger.zz\">\n{}</transition>\n<transition event=\"{}\"/>\n<transition event=\"*\"/>\n</state>\n</scxml>\n",
                body, desc
            )
        }
    };
    let mut case = Case::new();
    let fsm = parse_xml(&xml)?;
    let mut r = case.start(fsm);
    let (hit_uid, miss_uid) = if delivery == Delivery::Host { ("s.0", "s.1") } else { ("s.1", "s.2") };
    let sent = if delivery == Delivery::Host {
        for n in names {
            r.send(n);
        }
        names.len() as u64
    } else {
        r.send("trigger.zz");
        1
    };
    match r.quiescent(sent) {
        Wait::Idle => {}
        Wait::Finished => return Err("session ended".into()),
        Wait::Timeout => {
            let _ = r.send(crate::refsim::CANCEL);
            for p in crate::phook::take_panics() {
                if p.thread.starts_with("fsm_") {
                    return Err(format!("session-thread-panic: {} @ {}", p.message, p.location));
                }
            }
            return Err("watchdog".into());
        }
    }
    r.finish();
    let info = &r.info;
    let log = rec::take_log();
    let mut out = Vec::new();
    let mut current: Option<String> = None;
    for e in &log {
        if e.tracer != r.tracer {
            continue;
        }
        match &e.ev {
            Ev::XRecv(ev) if delivery == Delivery::Host => {
                if let Some(c) = current.take() {
                    out.push((c, None));
                }
                if ev.name != crate::refsim::CANCEL {
                    current = Some(ev.name.clone());
                }
            }
            Ev::IRecv(ev) if delivery != Delivery::Host => {
                if let Some(c) = current.take() {
                    out.push((c, None));
                }
                current = Some(ev.name.clone());
            }
            Ev::Enabled(ids) => {
                if let Some(c) = current.take() {
                    let uids: Vec<String> = ids.iter().filter_map(|i| info.trans_uid.get(i).cloned()).collect();
                    let verdict = if uids.len() == 1 && uids[0] == hit_uid {
                        Some(true)
                    } else if uids.len() == 1 && uids[0] == miss_uid {
                        Some(false)
                    } else {
                        None
                    };
                    out.push((c, verdict));
                }
            }
            _ => {}
        }
    }
    if let Some(c) = current.take() {
        out.push((c, None));
    }
    Ok(out)
}

pub fn run(args: &Args, rep: &mut Report) {
    let mut rng = args.rng(19);
    // names: all 1- and 2-token names over the alphabet (+ 3-token and odd ones sampled)
    let mut names: Vec<String> = Vec::new();
    for a in TOKENS {
        names.push(a.to_string());
        for b in TOKENS {
            names.push(format!("{}.{}", a, b));
        }
    }
    let mut extra_names: Vec<String> = vec![
        "a..b".into(), "a.".into(), ".a".into(), "a.b.".into(), "..".into(), "a b".into(), "a .b".into(), "error.execution".into(),
        "errors.my.custom".into(), "error.send.failed".into(), "é.é.é".into(), "日本.日.日本".into(), "aB.ab".into(), "AB".into(), "ab.".into(),
    ];
    for _ in 0..40 {
        extra_names.push(format!("{}.{}.{}", rng.pick(&TOKENS), rng.pick(&TOKENS), rng.pick(&TOKENS)));
    }
    // descriptor lists
    let mut lists: Vec<Vec<String>> = Vec::new();
    for a in TOKENS {
        lists.push(vec![a.to_string()]);
        for b in TOKENS {
            lists.push(vec![format!("{}.{}", a, b)]);
        }
    }
    let exhaustive_lists = lists.len();
    // suffix spellings, multi-descriptor lists, wildcards (sampled)
    let n_extra = args.scale(260, 4000);
    for _ in 0..n_extra {
        let mut l = Vec::new();
        let k = 1 + rng.below(3);
        for _ in 0..k {
            let mut d = rng.pick(&TOKENS).to_string();
            for _ in 0..rng.below(3) {
                d.push('.');
                d.push_str(*rng.pick(&TOKENS));
            }
            match rng.below(5) {
                0 => d.push('.'),
                1 => d.push_str(".*"),
                _ => {}
            }
            if rng.chance(1, 25) {
                d = "*".to_string();
            }
            l.push(d);
        }
        lists.push(l);
    }
    rep.exhaustive = Some(false);
    rep.notes.push(format!(
        "all {} descriptors with <= 2 tokens x all {} names with <= 2 tokens over a {}-token alphabet are enumerated completely (host delivery); suffix spellings, longer names and descriptor lists are sampled",
        exhaustive_lists,
        names.len(),
        TOKENS.len()
    ));
    let mut all_names = names.clone();
    all_names.extend(extra_names.iter().cloned());
    let internal_names: Vec<String> = all_names.iter().filter(|n| xml_ok(n)).cloned().collect();

    for (li, list) in lists.iter().enumerate() {
        if !args.mine(li) {
            continue;
        }
        let deliveries: &[Delivery] = if li % 3 == 0 { &[Delivery::Host, Delivery::Raise, Delivery::SendInternal] } else { &[Delivery::Host] };
        for &delivery in deliveries {
            let ns = if delivery == Delivery::Host { &all_names } else { &internal_names };
            let res = match probe(list, ns, delivery) {
                Ok(r) => r,
                Err(e) => {
                    if e.starts_with("reader") {
                        rep.violation(
                            "reader-rejects-descriptor",
                            &format!("the reader rejected event=\"{}\": {}", list.join(" "), e),
                            json!({"descriptors": list, "error": e}),
                        );
                    } else if e.starts_with("session-thread-panic") {
                        rep.violation(
                            &format!("matching-panics:{}", e.rsplit(" @ ").next().unwrap_or("?")),
                            &format!("while the names were matched against event=\"{}\" the session thread panicked ({}): no matching result for the remaining names", list.join(" "), e),
                            json!({"descriptors": list, "names_head": ns.iter().take(40).collect::<Vec<_>>(), "delivery": format!("{:?}", delivery), "panic": e}),
                        );
                    } else {
                        rep.inconclusive(&format!("{} for descriptors {:?}", e, list));
                    }
                    continue;
                }
            };
            if res.len() != ns.len() {
                rep.inconclusive(&format!("{} of {} names observed for {:?}", res.len(), ns.len(), list));
                continue;
            }
            rep.count(&format!("sessions_{:?}", delivery), 1);
            for (name, verdict) in res {
                rep.evaluations += 1;
                let want = oracle(list, &name);
                let got = match verdict {
                    Some(b) => b,
                    None => {
                        rep.violation(
                            "no-single-transition",
                            &format!("event {:?} against descriptors {:?}: neither the probe nor the wildcard transition was selected alone", name, list),
                            json!({"descriptors": list, "name": name, "delivery": format!("{:?}", delivery)}),
                        );
                        continue;
                    }
                };
                // non-trivial: a descriptor is a proper string prefix of the name
                for d in list {
                    let core = d.trim_end_matches(".*").trim_end_matches('.');
                    if core != "*" && name.len() > core.len() && name.starts_with(core) {
                        rep.nontrivial_key(&format!("{}|{}", core, name));
                        if !core.is_ascii() {
                            rep.count("nontrivial_pairs_multibyte", 1);
                        } else {
                            rep.count("nontrivial_pairs_ascii", 1);
                        }
                    }
                }
                if got {
                    rep.count("matched", 1);
                } else {
                    rep.count("not_matched", 1);
                }
                if got != want {
                    let d0 = list.iter().find(|d| !d.is_ascii());
                    let key = if d0.is_some() || !name.is_ascii() {
                        if got { "multibyte-partial-token-match" } else { "multibyte-token-prefix-not-matched" }
                    } else if got {
                        "ascii-false-match"
                    } else {
                        "ascii-missed-match"
                    };
                    rep.violation(
                        key,
                        &format!(
                            "event name {:?} against event=\"{}\" ({:?} delivery): transition {} taken, token-prefix rule says {}",
                            name,
                            list.join(" "),
                            delivery,
                            if got { "was" } else { "was not" },
                            if want { "match" } else { "no match" }
                        ),
                        json!({"descriptors": list, "name": name, "delivery": format!("{:?}", delivery), "expected_match": want, "observed_match": got}),
                    );
                } else if rep.samples.len() < rep.max_samples && want && name.contains('.') && rng.chance(1, 200) {
                    rep.sample(json!({"descriptors": list, "name": name, "match": got, "delivery": format!("{:?}", delivery)}));
                }
            }
        }
    }
}
