//! Shared workload of the structural properties (C01, C02, C03, C06, C07, C08):
//! generated documents × event paths, run in the real interpreter and in the reference interpreter.

use crate::docgen::*;
use crate::legality::{self, LegalityStats};
use crate::refsim::{Flat, Machine, CANCEL};
use crate::report::{Args, Report};
use crate::rng::Rng;
use crate::session::{self, RunResult, RunStatus};
use serde_json::json;
use std::collections::{BTreeSet, HashMap, VecDeque};

pub struct Expected {
    pub lines: Vec<String>,
    pub diverged: bool,
    pub ended_early: bool,
    pub stats: RefStats,
    pub final_config: Vec<String>,
}

#[derive(Default, Clone, Debug)]
pub struct RefStats {
    pub multi: usize,
    pub preempted: usize,
    pub hist_restore: usize,
    pub hist_default: usize,
    pub errors: usize,
    pub max_iq: usize,
    pub done_parallel: usize,
    pub mid_block_errors: usize,
    pub else_taken: usize,
    pub elem_assigned: usize,
    pub microsteps: usize,
}

pub fn expected_trace(f: &Flat, path: &[String]) -> Expected {
    expected_trace_mode(f, path, false)
}

pub fn expected_trace_mode(f: &Flat, path: &[String], prequeue: bool) -> Expected {
    let mut m = Machine::new(f);
    let mut ended_early = false;
    if prequeue {
        m.start_prequeued(path);
        if !m.running {
            ended_early = true;
        }
    } else {
        m.start();
        for e in path {
            if !m.running || m.diverged {
                ended_early = true;
                break;
            }
            m.feed(e);
        }
    }
    let mut final_config = m.config_names();
    if m.running && !m.diverged {
        final_config = m.config_names();
        m.feed(CANCEL);
    } else if !m.running {
        // configuration at the moment the machine stopped is gone (all exited); not needed
        final_config = vec![];
    }
    Expected {
        lines: m.lines.clone(),
        diverged: m.diverged,
        ended_early,
        stats: RefStats {
            multi: m.stat_multi_transition_steps,
            preempted: m.stat_preempted,
            hist_restore: m.stat_history_restores,
            hist_default: m.stat_history_defaults,
            errors: m.stat_errors,
            max_iq: m.stat_max_iq,
            done_parallel: m.stat_done_parallel,
            mid_block_errors: m.stat_mid_block_errors,
            else_taken: m.stat_else_taken,
            elem_assigned: m.stat_elem_assigned,
            microsteps: m.microsteps,
        },
        final_config,
    }
}

/// Random walk guided by the reference machine (guide only): prefers events that can fire something.
pub fn guided_path(f: &Flat, alphabet: &[String], len: usize, rng: &mut Rng) -> Vec<String> {
    let mut m = Machine::new(f);
    m.start();
    let mut path = Vec::new();
    for _ in 0..len {
        if !m.running || m.diverged {
            break;
        }
        let cands = m.interesting_events(alphabet);
        let e = if !cands.is_empty() && rng.chance(5, 6) {
            cands[rng.below(cands.len())].clone()
        } else {
            alphabet[rng.below(alphabet.len())].clone()
        };
        m.feed(&e);
        path.push(e);
    }
    path
}

/// Breadth-first enumeration of the reachable graph of the reference machine; returns for every
/// reachable (state, event) edge the shortest event path that exercises it. `complete` is true
/// if the graph was enumerated within the cap.
pub fn reachable_edge_paths(f: &Flat, alphabet: &[String], cap: usize) -> (Vec<Vec<String>>, bool, usize) {
    let mut m0 = Machine::new(f);
    m0.start();
    if m0.diverged {
        return (vec![], false, 0);
    }
    let mut seen: HashMap<crate::refsim::MState, usize> = HashMap::new();
    let mut queue: VecDeque<(Machine, Vec<String>)> = VecDeque::new();
    seen.insert(m0.state_key(), 0);
    queue.push_back((m0, vec![]));
    let mut paths = Vec::new();
    let mut complete = true;
    while let Some((m, p)) = queue.pop_front() {
        if !m.running {
            continue;
        }
        for e in alphabet {
            let mut n = m.clone();
            n.lines.clear();
            n.feed(e);
            if n.diverged {
                continue;
            }
            let mut np = p.clone();
            np.push(e.clone());
            paths.push(np.clone());
            let k = n.state_key();
            if !seen.contains_key(&k) {
                if seen.len() >= cap {
                    complete = false;
                    continue;
                }
                seen.insert(k, seen.len());
                queue.push_back((n, np));
            }
        }
    }
    (paths, complete, seen.len())
}

pub struct CaseOutcome {
    pub res: RunResult,
    pub observed: Vec<String>,
}

pub fn run_real(xml: &str, path: &[String]) -> CaseOutcome {
    run_real_mode(xml, path, false)
}

pub fn run_real_mode(xml: &str, path: &[String], prequeue: bool) -> CaseOutcome {
    let res = session::run_doc_mode(xml, path, prequeue);
    let observed = session::canonical_lines(&res);
    CaseOutcome { res, observed }
}

pub fn witness(doc: &Doc, xml: &str, path: &[String], expected: &[String], observed: &[String], extra: serde_json::Value) -> serde_json::Value {
    json!({
        "kind": "document-run",
        "datamodel": doc.dm.name(),
        "xml": xml,
        "events": path,
        "expected_trace": expected,
        "observed_trace": observed,
        "detail": extra,
    })
}

pub fn doc_shape_hash(doc: &Doc) -> u64 {
    // structural fingerprint independent of names of marks
    let mut s = String::new();
    doc.root.walk(&mut |n| {
        s.push_str(&format!(
            "{:?}:{}:{}:{};",
            n.kind,
            n.children.len(),
            n.trans.iter().map(|t| format!("{}>{}{}", t.events.join("|"), t.targets.len(), if t.internal { "i" } else { "" })).collect::<Vec<_>>().join(","),
            n.initial.as_ref().map(|i| i.targets.len()).unwrap_or(0)
        ));
    });
    crate::rng::fnv(&s)
}

/// Which of the structural monitors to apply
#[derive(Clone, Copy, PartialEq, Debug)]
pub enum Focus {
    Legality,
    Order,
    Rtc,
    History,
    Done,
    Content,
}

pub struct Workload<'a> {
    pub args: &'a Args,
    pub rep: &'a mut Report,
    pub focus: Focus,
    pub lstats: LegalityStats,
    /// queue all events before the first macrostep (content data models only)
    pub prequeue: bool,
    pub qstats: crate::monitors::QueueStats,
    pub hstats: crate::monitors::HistoryStats,
    pub dstats: crate::monitors::DoneStats,
    /// result of the last run: the focus' own non-triviality verdict
    pub last_nontrivial: bool,
    /// tier `miri`: runs executed so far (bounded by `Args::budget`)
    pub miri_runs: usize,
}

impl<'a> Workload<'a> {
    pub fn new(args: &'a Args, rep: &'a mut Report, focus: Focus) -> Workload<'a> {
        Workload {
            args,
            rep,
            focus,
            lstats: Default::default(),
            prequeue: false,
            qstats: Default::default(),
            hstats: Default::default(),
            dstats: Default::default(),
            last_nontrivial: false,
            miri_runs: 0,
        }
    }
}

impl<'a> Workload<'a> {
    /// runs (doc, path) in both interpreters and applies the monitors; returns false if the run was discarded
    pub fn run_one(&mut self, doc: &Doc, f: &Flat, path: &[String], twice: bool) -> bool {
        self.last_nontrivial = false;
        if self.args.miri() {
            // inside the Miri interpreter a run costs seconds: a seed-dependent sample of the fixed corpus
            // and of the generated cases, bounded per process
            let h = crate::rng::fnv(&format!("{}:{}:{}", distinct_key(doc, path), self.args.seed, self.args.shard));
            if self.miri_runs >= self.args.budget || h % (self.args.every as u64).max(1) != 0 {
                self.rep.count("miri_cases_not_sampled", 1);
                return false;
            }
            self.miri_runs += 1;
        }
        let prequeue = self.prequeue && doc.dm != Dm::Null;
        let exp = expected_trace_mode(f, path, prequeue);
        if exp.diverged {
            self.rep.count("discarded_nonterminating_documents", 1);
            return false;
        }
        let gated;
        let doc = if prequeue {
            let mut d = doc.clone();
            d.script.insert(0, Stmt::Gate(1));
            gated = d;
            &gated
        } else {
            doc
        };
        let xml = doc.to_xml();
        let out = run_real_mode(&xml, path, prequeue);
        if prequeue {
            self.rep.count("runs_with_all_events_prequeued", 1);
        }
        self.rep.evaluations += 1;
        self.rep.count(&format!("runs_{}", doc.dm.name()), 1);
        match &out.res.status {
            RunStatus::ReaderRejected(e) => {
                self.rep.violation(
                    &format!("reader-rejects-conformant-document:{}", e.split(" @ ").last().unwrap_or("?")),
                    &format!("the reader rejected a generated conformant document: {}", e),
                    witness(doc, &xml, path, &exp.lines, &[], json!({"error": e})),
                );
                return true;
            }
            RunStatus::TimedOut(whr) => {
                // runaway = the real interpreter keeps taking microsteps where the reference stopped
                let micro = out.res.log.iter().filter(|e| matches!(&e.ev, crate::rec::Ev::MIn(m) if m == "microstep")).count();
                if micro > 100 * (exp.stats.microsteps + 5) {
                    crate::report::request_stop();
                    self.rep.violation(
                        "runaway-microsteps",
                        &format!("the session took {} microsteps where the reference takes {} (watchdog at {})", micro, exp.stats.microsteps, whr),
                        witness(doc, &xml, path, &exp.lines, &out.observed, json!({"timeout_at": whr})),
                    );
                } else if out.res.session_thread_panicked {
                    self.rep.violation(
                        "session-thread-panic",
                        "the session thread panicked",
                        witness(doc, &xml, path, &exp.lines, &out.observed, json!({"timeout_at": whr, "log_tail": tail(&out.res, 12)})),
                    );
                } else {
                    // blocked in the external queue although events are outstanding = an event was lost
                    let last_method = out.res.log.iter().rev().find_map(|e| match &e.ev {
                        crate::rec::Ev::MIn(m) => Some(m.clone()),
                        _ => None,
                    });
                    let x = out.res.log.iter().filter(|e| matches!(&e.ev, crate::rec::Ev::XRecv(_))).count();
                    if last_method.as_deref() == Some("externalQueue.dequeue") && whr != "gate" {
                        self.rep.violation(
                            "external-event-never-consumed",
                            &format!("the session waits in its external queue after {} events although more were sent (watchdog at {})", x, whr),
                            witness(doc, &xml, path, &exp.lines, &out.observed, json!({"timeout_at": whr})),
                        );
                    } else {
                        self.rep.inconclusive(&format!("watchdog at {} ({} log entries)", whr, out.res.log.len()));
                    }
                }
                return true;
            }
            RunStatus::Completed => {}
        }
        if out.res.session_thread_panicked {
            self.rep.violation(
                "session-thread-panic",
                "the session thread panicked",
                witness(doc, &xml, path, &exp.lines, &out.observed, json!({"log_tail": tail(&out.res, 12)})),
            );
            return true;
        }
        // C01 monitor runs for every focus (cheap, model-free)
        if let Err((key, what)) = legality::check(f, &out.res, &mut self.lstats) {
            if self.focus == Focus::Legality {
                self.rep.violation(&key, &what, witness(doc, &xml, path, &exp.lines, &out.observed, json!({})));
                return true;
            } else {
                self.rep.count("legality_alarm_outside_C01", 1);
                self.rep.set_add("legality_alarm_keys_outside_C01", &key);
            }
        }
        // focus-specific model-free monitors
        let content = doc.dm != Dm::Null;
        let focus_result: Result<(), (String, String)> = match self.focus {
            Focus::Rtc => crate::monitors::queue_discipline(&out.res, &mut self.qstats),
            Focus::History => crate::monitors::history(f, &out.res, &mut self.hstats, content),
            Focus::Done => crate::monitors::done_and_termination(f, &out.res, &mut self.dstats, content, path.len()),
            _ => Ok(()),
        };
        if let Err((key, what)) = focus_result {
            self.rep.violation(&key, &what, witness(doc, &xml, path, &exp.lines, &out.observed, json!({"monitor": format!("{:?}", self.focus)})));
            return true;
        }
        if self.focus == Focus::Rtc {
            self.last_nontrivial = std::mem::replace(&mut self.qstats.nontrivial, false);
        }
        // reference equality
        if let Some((i, e, o)) = session::first_divergence(&exp.lines, &out.observed) {
            let key = divergence_key(&e, &o, self.focus);
            let report_it = match self.focus {
                Focus::Legality => false,
                _ => true,
            };
            if report_it {
                self.rep.violation(
                    &key,
                    &format!("trace diverges from the W3C algorithm at line {}: expected `{}`, observed `{}`", i, e, o),
                    witness(doc, &xml, path, &exp.lines, &out.observed, json!({"line": i, "expected": e, "observed": o})),
                );
                return true;
            } else {
                self.rep.count("reference_divergence_outside_focus", 1);
            }
        }
        // determinism: the same (doc, path) again, fresh parse
        if twice {
            let out2 = run_real_mode(&xml, path, prequeue);
            self.rep.count("determinism_reruns", 1);
            if matches!(out2.res.status, RunStatus::Completed) {
                if let Some((i, a, b)) = session::first_divergence(&out.observed, &out2.observed) {
                    self.rep.violation(
                        "nondeterministic-trace",
                        &format!("two runs of the same document and events differ at line {}: `{}` vs `{}`", i, a, b),
                        witness(doc, &xml, path, &out.observed, &out2.observed, json!({"line": i})),
                    );
                    return true;
                }
            } else {
                self.rep.inconclusive("rerun did not complete");
            }
        }
        // statistics / non-triviality
        let st = &exp.stats;
        self.rep.count("microsteps", st.microsteps as u64);
        self.rep.count("steps_with_several_transitions", st.multi as u64);
        self.rep.count("preempted_transitions", st.preempted as u64);
        self.rep.count("history_restores", st.hist_restore as u64);
        self.rep.count("history_defaults", st.hist_default as u64);
        self.rep.count("content_errors", st.errors as u64);
        self.rep.count("done_parallel", st.done_parallel as u64);
        self.rep.count("mid_block_errors", st.mid_block_errors as u64);
        self.rep.count("else_branches_taken", st.else_taken as u64);
        self.rep.count("array_elements_assigned", st.elem_assigned as u64);
        if self.rep.samples.len() < self.rep.max_samples && st.microsteps >= 3 {
            self.rep.sample(json!({"datamodel": doc.dm.name(), "events": path, "xml": xml, "trace_head": out.observed.iter().take(25).collect::<Vec<_>>()}));
        }
        true
    }

    pub fn flush_legality(&mut self) {
        let s = &self.lstats;
        self.rep.count("quiescent_configuration_samples", s.quiescent_samples);
        self.rep.count("mid_microstep_configuration_samples", s.mark_samples);
        self.rep.count("skipped_configuration_samples", s.skipped_samples);
        self.rep.count("enter_events", s.enters);
        self.rep.count("exit_events", s.exits);
        self.rep.count("samples_containing_a_parallel", s.configs_with_parallel);
        self.rep.count("distinct_configurations_this_shard", s.distinct_configs.len() as u64);
    }
}

pub fn tail(res: &RunResult, n: usize) -> Vec<String> {
    let l = res.log.len();
    res.log[l.saturating_sub(n)..].iter().map(|e| e.line()).collect()
}

fn kind_of(line: &str) -> &'static str {
    match line.chars().next() {
        Some('T') => "transition-set",
        Some('-') => "exit",
        Some('+') => "entry",
        Some('M') => "content",
        Some('I') => "internal-event",
        Some('X') => "external-event",
        Some('Q') => "done-event",
        _ => "end",
    }
}

/// finding key of a divergence: kinds of the expected / observed line plus a content class
pub fn divergence_key(expected: &str, observed: &str, _focus: Focus) -> String {
    let detail = |l: &str| -> String {
        if let Some(rest) = l.strip_prefix("I ") {
            if rest.starts_with("error.") || rest.starts_with("done.") {
                return format!(":{}", rest.split('.').take(2).collect::<Vec<_>>().join("."));
            }
        }
        if let Some(rest) = l.strip_prefix("M ") {
            let tag: String = rest.chars().take_while(|c| c.is_alphabetic()).collect();
            return format!(":{}", tag);
        }
        String::new()
    };
    format!(
        "diverge:{}{}->{}{}",
        kind_of(expected),
        detail(expected),
        kind_of(observed),
        detail(observed)
    )
}

pub fn distinct_key(doc: &Doc, path: &[String]) -> String {
    format!("{:x}:{}", doc_shape_hash(doc), path.join(","))
}

pub fn alphabet(o: &GenOpts) -> Vec<String> {
    let mut a = o.events.clone();
    a.push("nomatch".to_string());
    a
}

/// generic seeded sweep used by several properties
pub fn sweep(
    w: &mut Workload,
    n_docs: usize,
    paths_per_doc: usize,
    path_len: usize,
    dms: &[Dm],
    tune: &dyn Fn(&mut GenOpts),
    nontrivial: &dyn Fn(&RefStats, &Doc) -> bool,
    salt: u64,
) {
    let mut rng = w.args.rng(salt);
    let mut seen_cfg: BTreeSet<String> = BTreeSet::new();
    for d in 0..n_docs {
        if crate::report::should_stop() {
            break;
        }
        let dm = dms[d % dms.len()];
        let mut o = GenOpts::structural(dm, w.args.thorough());
        tune(&mut o);
        let doc = generate(&mut rng, &o, &format!("doc{}", d));
        let f = match Flat::from_doc(&doc) {
            Ok(f) => f,
            Err(e) => {
                w.rep.notes.push(format!("generator produced an unresolvable document: {}", e));
                continue;
            }
        };
        let alpha = alphabet(&o);
        for p in 0..paths_per_doc {
            let len = 1 + rng.below(path_len);
            let path = guided_path(&f, &alpha, len, &mut rng);
            let exp = expected_trace(&f, &path);
            if exp.diverged {
                w.rep.count("discarded_nonterminating_documents", 1);
                break;
            }
            let twice = w.focus == Focus::Order && p == 0;
            if w.run_one(&doc, &f, &path, twice) && nontrivial(&exp.stats, &doc) {
                w.rep.nontrivial_key(&distinct_key(&doc, &path));
            }
        }
        let _ = &mut seen_cfg;
    }
}
