//! C07 – final states raise done events and a top-level final ends the session cleanly.
use crate::docgen::*;
use crate::report::{Args, Report};
use crate::structural::*;

pub fn run(args: &Args, rep: &mut Report) {
    if args.shard == 0 {
        donedata_family(rep);
    }
    let mut w = Workload::new(args, rep, Focus::Done);
    let dms = crate::c01::dms_available();
    let tune = |o: &mut GenOpts| {
        o.w_final = 6;
        o.w_parallel = 4;
        o.w_history = 1;
        o.w_eventless = 1;
        o.w_raise = 1;
        o.w_cond = 1;
        o.max_states = if o.max_states > 8 { 14 } else { 9 };
    };
    for (mode, salt) in [(false, 71u64), (true, 72u64)] {
        w.prequeue = mode;
        if args.shard == 0 {
            for dm in crate::c01::dms_available() {
                for (doc, paths) in crate::corpus::all(dm) {
                    let f = crate::refsim::Flat::from_doc(&doc).unwrap();
                    for p in &paths {
                        if w.run_one(&doc, &f, p, false) {
                            w.rep.nontrivial_key(&format!("{}:{}", mode, distinct_key(&doc, p)));
                        }
                    }
                }
            }
        }
        let n = args.scale(150, 2000);
        let mut rng = args.rng(salt);
        // nested parallels completing in every order
        for d in 0..args.scale(40, 600) {
            if crate::report::should_stop() {
                break;
            }
            let dm = dms[d % dms.len()];
            let (doc, paths) = crate::corpus::done_tree(&mut rng, dm, d);
            let f = match crate::refsim::Flat::from_doc(&doc) {
                Ok(f) => f,
                Err(e) => {
                    w.rep.inconclusive(&format!("done_tree document rejected by the reference: {:?}", e));
                    continue;
                }
            };
            for p in &paths {
                let b1 = w.dstats.done_parallel_events;
                if w.run_one(&doc, &f, p, false) && w.dstats.done_parallel_events > b1 {
                    w.rep.nontrivial_key(&format!("{}:{}", mode, distinct_key(&doc, p)));
                }
            }
        }
        for d in 0..n {
            if crate::report::should_stop() {
                break;
            }
            let dm = dms[d % dms.len()];
            let mut o = GenOpts::structural(dm, args.thorough());
            tune(&mut o);
            let doc = generate(&mut rng, &o, &format!("f{}", d));
            let f = match crate::refsim::Flat::from_doc(&doc) {
                Ok(f) => f,
                Err(_) => continue,
            };
            let alpha = alphabet(&o);
            for _ in 0..3 {
                let len = 2 + rng.below(if args.thorough() { 24 } else { 10 });
                let mut path = guided_path(&f, &alpha, len, &mut rng);
                // events that are still queued when the machine has stopped
                path.push("e1".to_string());
                path.push("e2".to_string());
                let b1 = w.dstats.done_parallel_events;
                let b2 = w.dstats.terminations_with_events_queued + w.dstats.terminations_with_several_active_states;
                if w.run_one(&doc, &f, &path, false) {
                    let a2 = w.dstats.terminations_with_events_queued + w.dstats.terminations_with_several_active_states;
                    if w.dstats.done_parallel_events > b1 || a2 > b2 {
                        w.rep.nontrivial_key(&format!("{}:{}", mode, distinct_key(&doc, &path)));
                    }
                }
            }
        }
    }
    w.flush_legality();
    let d = &w.dstats;
    w.rep.count("done_state_events", d.done_state_events);
    w.rep.count("done_state_parallel_events", d.done_parallel_events);
    w.rep.count("terminations_by_top_level_final", d.terminations_by_final);
    w.rep.count("terminations_by_cancel", d.terminations_by_cancel);
    w.rep.count("terminations_with_events_still_queued", d.terminations_with_events_queued);
    w.rep.count("terminations_with_several_active_states", d.terminations_with_several_active_states);
    w.rep.count("onexit_marks_checked_at_termination", d.onexit_marks_at_termination);
}

// ---------------------------------------------------------------------------------------------------------
// donedata family: "done.state.<parent> (with the evaluated donedata)".  Hand-written documents, expected payload by
// rule (W3C 5.5 / 5.7): the params that evaluate make up the data, a param whose evaluation fails is left out and
// raises error.execution, <content> gives its value, a failing <content expr> gives no data and error.execution;
// the done event itself is raised in every case, exactly once per entry of the final state, and the payload is
// evaluated at that entry (the document re-enters the compound state with changed data).
struct DdCase {
    name: &'static str,
    donedata: &'static str,
    /// expected payload on the first and on the second completion (v is 1, then 11)
    want: [Option<crate::expr_ref::V>; 2],
    errors: u32,
}

fn dd_cases() -> Vec<DdCase> {
    use crate::expr_ref::V;
    let map = |pairs: &[(&str, V)]| {
        let mut m = std::collections::BTreeMap::new();
        for (k, v) in pairs {
            m.insert(k.to_string(), v.clone());
        }
        Some(V::Map(m))
    };
    let s = |x: &str| V::Str(x.to_string());
    vec![
        DdCase { name: "one-param", donedata: r##"<param name="p" expr="v + 1"/>"##, want: [map(&[("p", V::Int(2))]), map(&[("p", V::Int(12))])], errors: 0 },
        DdCase { name: "two-params", donedata: r##"<param name="p" expr="v + 1"/><param name="q" expr="'s'"/>"##, want: [map(&[("p", V::Int(2)), ("q", s("s"))]), map(&[("p", V::Int(12)), ("q", s("s"))])], errors: 0 },
        DdCase { name: "param-location", donedata: r##"<param name="e" location="w"/><param name="p" expr="v"/>"##, want: [map(&[("e", s("str")), ("p", V::Int(1))]), map(&[("e", s("str")), ("p", V::Int(11))])], errors: 0 },
        DdCase { name: "bad-param-last", donedata: r##"<param name="p" expr="v + 1"/><param name="bad" expr="nosuch_variable"/>"##, want: [map(&[("p", V::Int(2))]), map(&[("p", V::Int(12))])], errors: 1 },
        DdCase { name: "bad-param-first", donedata: r##"<param name="bad" expr="nosuch_variable"/><param name="p" expr="v + 1"/>"##, want: [map(&[("p", V::Int(2))]), map(&[("p", V::Int(12))])], errors: 1 },
        DdCase {
            name: "bad-param-between",
            donedata: r##"<param name="p" expr="v + 1"/><param name="bad" location="nosuch_variable"/><param name="q" expr="'s'"/>"##,
            want: [map(&[("p", V::Int(2)), ("q", s("s"))]), map(&[("p", V::Int(12)), ("q", s("s"))])],
            errors: 1,
        },
        DdCase { name: "only-bad-param", donedata: r##"<param name="bad" expr="nosuch_variable"/>"##, want: [None, None], errors: 1 },
        DdCase { name: "content-expr", donedata: r##"<content expr="v + 5"/>"##, want: [Some(V::Int(6)), Some(V::Int(16))], errors: 0 },
        DdCase { name: "content-text", donedata: r##"<content>plain</content>"##, want: [Some(s("plain")), Some(s("plain"))], errors: 0 },
        DdCase { name: "bad-content-expr", donedata: r##"<content expr="nosuch_variable"/>"##, want: [None, None], errors: 1 },
        DdCase { name: "no-donedata", donedata: "", want: [None, None], errors: 0 },
    ]
}

fn dd_doc(dm: &str, c: &DdCase, in_parallel: bool) -> String {
    let dd = if c.donedata.is_empty() { String::new() } else { format!("<donedata>{}</donedata>", c.donedata) };
    // compound state c with final child cf; optionally c is a region of a parallel whose other region is final at once
    let comp = format!(
        r##"<state id="c" initial="c1">
    <onentry><script>mark('en', 'c')</script></onentry>
    <state id="c1"><transition event="fin" target="cf"/></state>
    <final id="cf">{dd}</final>
   </state>"##,
        dd = dd
    );
    let body = if in_parallel {
        format!(
            r##"<parallel id="par">
   {comp}
   <state id="r2" initial="r2f"><final id="r2f"/></state>
  </parallel>"##,
            comp = comp
        )
    } else {
        comp
    };
    format!(
        r##"<scxml xmlns="http://www.w3.org/2005/07/scxml" version="1.0" datamodel="{dm}" initial="top">
 <datamodel><data id="v" expr="1"/><data id="w" expr="'str'"/></datamodel>
 <state id="top" initial="{init}">
  <transition event="done.state.c"><script>mark('dd', _event.name, _event.data)</script></transition>
  <transition event="done.state.par"><script>mark('ddp', _event.name, _event.data)</script></transition>
  <transition event="error.execution"><script>mark('err')</script></transition>
  <transition event="again" target="{init}"><assign location="v" expr="v + 10"/></transition>
  <transition event="probe"><script>mark('probe')</script></transition>
  {body}
 </state>
</scxml>"##,
        dm = dm,
        init = if in_parallel { "par" } else { "c" },
        body = body
    )
}

fn donedata_family(rep: &mut Report) {
    use crate::expr_ref::V;
    use crate::rec::Ev;
    use crate::session::{run_doc, RunStatus};
    let blank = |v: &V| matches!(v, V::Null | V::NoneV) || matches!(v, V::Str(s) if s.is_empty());
    fn loose(a: &V, b: &V) -> bool {
        match (a, b) {
            (V::Int(x), V::Dbl(y)) | (V::Dbl(y), V::Int(x)) => (*x as f64) == *y,
            (V::Map(x), V::Map(y)) => x.len() == y.len() && x.iter().all(|(k, v)| y.get(k).map(|w| loose(v, w)).unwrap_or(false)),
            _ => a.same(b),
        }
    }
    let path: Vec<String> = ["probe", "fin", "probe", "again", "fin", "probe"].iter().map(|s| s.to_string()).collect();
    let dmns: Vec<&str> = if cfg!(feature = "full") { vec!["rfsm-expression", "ecmascript"] } else { vec!["rfsm-expression"] };
    for dmn in dmns {
        for c in dd_cases() {
            for in_parallel in [false, true] {
                let xml = dd_doc(dmn, &c, in_parallel);
                let res = run_doc(&xml, &path);
                rep.evaluations += 1;
                let w = serde_json::json!({"family": "donedata", "case": c.name, "datamodel": dmn, "in_parallel": in_parallel, "xml": xml, "events": path});
                if res.status != RunStatus::Completed {
                    if res.session_thread_panicked {
                        rep.violation("donedata:session-died", &format!("[{} / {}] the session thread died", dmn, c.name), w);
                    } else {
                        rep.inconclusive(&format!("donedata family: {:?}", res.status));
                    }
                    continue;
                }
                // marks of the session, in order
                let mut dd: Vec<(String, V)> = Vec::new();
                let mut ddp = 0u32;
                let mut errs_before: Vec<u32> = Vec::new(); // error marks seen before each dd mark
                let mut errs = 0u32;
                let mut probes = 0u32;
                for e in &res.log {
                    if let Ev::Mark { tag, args, .. } = &e.ev {
                        match tag.as_str() {
                            "dd" => {
                                let n = match args.first() {
                                    Some(V::Str(s)) => s.clone(),
                                    _ => String::new(),
                                };
                                dd.push((n, args.get(1).cloned().unwrap_or(V::NoneV)));
                                errs_before.push(errs);
                            }
                            "ddp" => ddp += 1,
                            "err" => errs += 1,
                            "probe" => probes += 1,
                            _ => {}
                        }
                    }
                }
                rep.count("donedata_completions_judged", dd.len() as u64);
                if dd.len() != 2 {
                    rep.violation(
                        if dd.len() < 2 { "donedata:done-event-missing" } else { "donedata:extra-done-event" },
                        &format!("[{} / {} / parallel={}] done.state.c processed {} times for two completions of the compound state", dmn, c.name, in_parallel, dd.len()),
                        w.clone(),
                    );
                    continue;
                }
                if in_parallel && ddp != 2 {
                    rep.violation("donedata:parallel-done-count", &format!("[{} / {}] done.state.par processed {} times for two completions", dmn, c.name, ddp), w.clone());
                }
                if probes != 3 {
                    rep.violation("donedata:session-not-responsive", &format!("[{} / {}] {} of 3 probe events processed", dmn, c.name, probes), w.clone());
                }
                for k in 0..2 {
                    let got = &dd[k].1;
                    let ok = match &c.want[k] {
                        None => blank(got),
                        Some(want) => loose(want, got),
                    };
                    if !ok {
                        rep.violation(
                            &format!("donedata:wrong-payload:{}", c.name),
                            &format!(
                                "[{} / {} / parallel={}] completion #{}: done.state.c carries {} but the donedata evaluates to {}",
                                dmn,
                                c.name,
                                in_parallel,
                                k + 1,
                                got.show(),
                                c.want[k].as_ref().map(|v| v.show()).unwrap_or_else(|| "nothing".into())
                            ),
                            w.clone(),
                        );
                    } else if c.want[k].is_some() {
                        rep.nontrivial_key(&format!("dd:{}:{}:{}:{}", dmn, c.name, in_parallel, k));
                    }
                }
                // error.execution: one per failing element and completion, raised before the done event it belongs to
                if errs != 2 * c.errors {
                    rep.violation(
                        &format!("donedata:error-count:{}", c.name),
                        &format!("[{} / {}] {} error.execution events for {} failing donedata evaluations", dmn, c.name, errs, 2 * c.errors),
                        w.clone(),
                    );
                } else if c.errors > 0 {
                    rep.count("donedata_errors_observed", errs as u64);
                }
            }
        }
    }
}
