#!/usr/bin/env python3
"""Writes /verif/MANIFEST.json from the table below (kept in one place so it stays valid)."""
import json, os, subprocess
V = os.path.dirname(os.path.dirname(os.path.abspath(__file__)))

def hook_commits():
    try:
        out = subprocess.run(["git", "-C", "/repo", "log", "--format=%H %s"], capture_output=True, text=True).stdout
        return [l.split()[0] for l in out.splitlines() if "verif hook" in l]
    except Exception:
        return []

CHECKS = {
 "C04": dict(cat="exploration",
   text="Generated SCXML element trees covering every element and attribute kind of the statement are rendered in ten lexical styles and parsed by the real reader; the canonical dump of each model must equal a model built by an independent reading of the tree (names and document positions, never ids) and the dump of the plain rendering.",
   note="Trusted: c04.rs::expected (independent tree-to-model reading) and canon.rs. <log> without expr, <assign> with child text, <script src> and initial-attribute-vs-element (which legitimately changes the transition type) are not generated. Counts of internal content blocks are not compared.",
   tech="differential / metamorphic runtime oracle on the real reader (independent model builder + lexical variants)", ref="DESIGN.md §5 C04"),
 "C20": dict(cat="exploration",
   text="The real rocket server on loopback is driven with raw HTTP form posts (names / fields over an alphabet that needs URL encoding, invalid session ids, missing event name, 8 concurrent clients) and with <send type=BasicHTTP> from real sessions to published locations; a checker over the receivers' probe marks decides status per request class, exactly-once per accepted request, name / data equality and textual parameter forms.",
   note="Trusted: the raw HTTP client in c20.rs (sends only what application/x-www-form-urlencoded defines), the probe marks. The port is fixed at 5555 by the implementation: the check serialises itself with a file lock; a busy port is reported as inconclusive, never as violation. Duplicate field names are not generated.",
   tech="black-box runtime check over the real HTTP endpoint with exactly-once multiset checker", ref="DESIGN.md §5 C20"),
 "C14": dict(cat="exploration",
   text="Parameterised parent / child scenarios (finishing and streaming children, parent-side cancellation after k child events or waiting for done.invoke, re-entered invoking states, two invokes per state, autoforward with host events, explicit and generated ids, inline content and src files) run for real; one merged log of parent and children (each child event carries its sequence number and the child's session id) is checked per clause with ordering / counting predicates; race-dependent clauses are stated per observed outcome.",
   note="Trusted: rec.rs merged log, the per-clause predicates in c14.rs. Relative timing comes from the scenario parameters and OS scheduling; the outcome orders actually seen are listed in the evidence. 'Invokes are cancelled after onexit' (ordering relative to onexit content) is not part of the statement and not judged.",
   tech="offline checker over merged parent/child histories (per-clause ordering and exactly-once predicates)", ref="DESIGN.md §5 C14"),
 "C15": dict(cat="exploration",
   text="A parent / invoked child / sibling topology exercises every target form (literal and computed) with every payload shape; each uniquely named event must be received exactly once in the addressed session and queue kind (IRECV vs XRECV at the tracer) with sendid, origin, origintype, invokeid and data as sent, and a reply addressed to _event.origin / origintype must reach the original sender; concurrent creation (16 threads on a barrier, each session invoking four children) checks uniqueness of session ids and generated send / invoke ids. A prefix-id scenario places sessions and invokes at ids that are string prefixes of one another (sessions 1 / 10 / 11, invokes pk / pk1) and routes between invoked children, third sessions and a second parent across them; sends with a failing <param> among valid ones must go out with the others.",
   note="Trusted: rec.rs tracer attribution by thread, the expectation table in c15.rs. Topologies are fixed templates (2 data models), not generated.",
   tech="offline checker over recorded receptions (exactly-once, addressed queue) + id-uniqueness monitor under concurrent creation", ref="DESIGN.md §5 C15"),
 "C16": dict(cat="exploration",
   text="Generated scenarios of delayed sends and cancels with every send / cancel bracketed by time-stamped marks on one monotonic clock; an interval oracle judges only what the measured intervals decide (not-early, exactly-once, due order, cancel before earliest due time, delivery when never cancelled, termination discard), absence is closed by a later sentinel; undecided pairs are counted, not judged. Delays are spelled in ms, s, minutes, hours and days (decimal fractions, upper / lower case); <cancel> of an id shared by two pending sends must prevent both.",
   note="Trusted: Instant timestamps taken in the mark action, 1 ms timer granularity allowance. No wall-clock deadline is used as a verdict except the 'never delivered' window, which is closed by a processed sentinel.",
   tech="offline checker over time-stamped event log with interval arithmetic", ref="DESIGN.md §5 C16"),
 "C09": dict(cat="exploration",
   text="Four probe families on real sessions: an In() probe in every body and guard of generated documents whose action compares every reported boolean with the live configuration at the call; an _event probe fed with host, raised, sent (internal / self / cross-session), platform and done events with all fields; write attempts of every kind against every system variable and _event field (error.execution expected, values re-read in the same microstep); nested state-local data under early and late binding with assignments and re-entry.",
   note="Trusted: the probe action (receives &GlobalData = the live configuration), the expected field values in c09.rs. Root-level <data> under late binding and the type of done.state events are not judged (not fixed by the statement). ecmascript runs in strict mode.",
   tech="runtime probes inside executable content and guards (assertions on hooked state) + field-by-field event comparison", ref="DESIGN.md §5 C09"),
 "C12": dict(cat="exploration",
   text="A table of failing platform operations and semantically odd but accepted documents (every attribute that may hold an expression, every malformed / nonexistent target spelling, illegal delays, 16 kinds of invoke that cannot start, odd host events), each in its own process and both content data models; monitors: panic hook attributed to session / timer threads that did not survive, presence of the mandated error event, bounded progress (probe event, cancel), and a healthy witness session of the same executor that must still send and receive. Further classes: delays of extreme size (due date beyond the calendar, beyond i64), several attributes of one <send> naming the same variable, 40 malformed expression texts as value and as guard.",
   note="Trusted: the scenario table's reading of which error event the Recommendation mandates (only presence is required; sending to a terminated session is not judged). 'Never stops responding' is restated as bounded progress after every injected failure.",
   tech="fault-injection workload with runtime monitors (panic hook, witness session, bounded-progress probes)", ref="DESIGN.md §5 C12"),
 "C13": dict(cat="exploration",
   text="Real sessions under concurrent producers of four kinds (host sender clones, FsmExecutor::send_to_session, sibling sessions, timer threads), with and without seeded jitter at lock acquisitions; an offline checker over the recorded log decides exactly-once, per-sender order and non-overlap of macrosteps using unique event names; the number of distinct interleavings actually produced is measured. A fifth producer kind are invoked children of the receiver sending to #_parent (their events must carry the invoke id, all others none).",
   note="Trusted: rec.rs log (one global sequence), the unique-name construction. Only the interleavings the OS scheduler and the jitter produce are covered; HTTP producers are exercised in C20.",
   tech="offline checker over recorded history (exactly-once, per-sender order, non-overlap) under stress + lock-acquisition jitter", ref="DESIGN.md §5 C13"),
 "C17": dict(cat="exploration",
   text="Stress topologies (rings, invoking states, timers, host threads starting sessions / sending / shutting down) run under the Verif_Hooks lock observer: lock-order edges per lock class are recorded and an online wait-for graph reports a cycle among blocked threads, i.e. an actual deadlock, at the moment it forms; afterwards every session must still be cancellable. The stress documents also address the invoke id of a child that is running, cancelled or was never started (the error path of the SCXML processor runs under its lock).",
   note="Trusted: verif_sync hook + lockmon.rs. Only observed wait-for cycles are violations; predicted but unconfirmed lock-order inversions are listed in the evidence. Liveness is restated as bounded progress.",
   tech="instrumented-mutex runtime monitor: lock-order graph + online wait-for cycle detection under stress and jitter", ref="DESIGN.md §5 C17"),
 "C11": dict(cat="exploration",
   text="Hostile inputs (fixed aliasing / extreme-operand corpus, grammar-derived over all operand types, token mutations, arbitrary Unicode) through seven entry points of the real parser / evaluator / data model, each in its own 2 MiB thread inside restartable child processes; monitors: panic hook + catch_unwind, the Verif_Hooks lock observer (relock by owner = self-deadlock, deterministic), post-state probe of the store, progress watchdog with address-space limit (non-termination, runaway allocation), and sub-process depth probes for stack exhaustion.",
   note="Trusted: lockmon.rs relock detection, the batch runner's attribution of a child death to the case in progress. Stack exhaustion on deep nesting / long chains is a recorded known finding.",
   tech="runtime monitors: panic / self-deadlock (instrumented mutex) / post-state / process-death attribution over generated hostile inputs", ref="DESIGN.md §5 C11"),
 "C05": dict(cat="exploration",
   text="Round trip through the real writer and reader on in-memory streams: boundary-complete enumeration of unsigned integers and string lengths (all width / length classes, multi-byte characters across the boundaries), every Data variant, mixed sequences; generated and hand-written models compared by canonical dump after write+read, also with ids moved to every width boundary; and (document, path) pairs executed on the original and on the reloaded model with equal traces.",
   note="Trusted: canon.rs (canonical dump; fields the format does not persist by design are excluded: version, file, tracer, timer, isFirstEntry, parent_state_name of <send>/<invoke> with explicit id). Generated send/invoke ids contain a process-global counter and are not compared.",
   tech="round-trip identity monitor on real writer/reader + behavioural trace equality", ref="DESIGN.md §5 C05"),
 "C18": dict(cat="fault_enumeration",
   text="Per image exhaustive fault enumeration against the real reader/writer: every strict prefix (crash point) must be rejected without panic, the complete image must survive arbitrarily short reads, and a failing / interrupted / short-writing sink at every write-call position must either yield the complete image or be visible in has_error().",
   note="Images are a sample (hand-written feature documents + generated ones); per image the enumeration is complete. Trusted: faultio.rs streams, canon.rs.",
   tech="fault injection at the byte-stream boundary, exhaustive per image, with outcome oracle", ref="DESIGN.md §5 C18"),
 "C19": dict(cat="exploration",
   text="Probe sessions in the real interpreter decide for (descriptor list, event name) pairs which transition is selected; compared with an independent 10-line token-prefix oracle. All pairs with <= 2 tokens per side over a 14-token alphabet with shared prefixes, case variants and multi-byte tokens are enumerated completely; delivery by host, <raise> and internal <send>.",
   note="Trusted: the oracle in c19.rs and the enabledTransitions trace. Descriptors with more than one trailing '.'/'.*' suffix are not generated (meaning not fixed by the statement).",
   tech="differential runtime oracle via probe sessions, exhaustive small scope", ref="DESIGN.md §5 C19"),
 "C01": dict(cat="exploration",
   text="Model-free legality monitor over real executions: a shadow configuration built from the tracer's ENTER/EXIT events is compared with samples of the real configuration (end of every microstep, every idle point, inside every probe action, reported final configuration) and every quiescent sample is checked against the five legality clauses; ~10^4 generated documents x guided event paths per quick run in three data models plus a fixed core corpus.",
   note="Trusted: the recording tracer / mark action (harness/src/rec.rs), the legality predicate (legality.rs) and the generator's notion of a conformant document. Samples mid-microstep are only compared, not required to be legal.",
   tech="runtime invariant monitor on sampled configurations + shadow state from trace events", ref="DESIGN.md §5 C01"),
 "C02": dict(cat="exploration",
   text="The real interpreter's trace (transition set from the enabledTransitions trace, EXIT/ENTER events, probe marks, dequeued events) is compared line by line with an independent reference interpreter of the W3C algorithm; for small documents the reachable graph is enumerated breadth-first and every (state,event) edge is executed, larger ones by guided walks; first path of each document is run twice for determinism.",
   note="Trusted: harness/src/refsim.rs (written from Appendix D with different data structures; common-mode risk reduced by the model-free monitors of C01/C03/C06/C07 running on the same runs).",
   tech="online-recorded trace vs executable reference model (differential), complete reachable-graph edge coverage per small document", ref="DESIGN.md §5 C02"),
 "C03": dict(cat="exploration",
   text="Model-free queue-discipline monitor (every announced <raise>/internal <send> consumed exactly once, in order, before the next external event; external events FIFO exactly once) on runs fed per macrostep and with all events pre-queued behind a gate, plus equality with the reference interpreter (decides 'eventless before internal' and 'a non-matching event changes nothing').",
   note="Trusted: rec.rs gate/mark probes, monitors.rs::queue_discipline, refsim.rs. The null data model executes no content and is therefore only covered by reference equality in C02.",
   tech="offline checker over recorded event log (exactly-once, FIFO, ordering) + reference model", ref="DESIGN.md §5 C03"),
 "C06": dict(cat="exploration",
   text="History snapshot monitor that recomputes from the trace what each exit must record and checks what a later transition to the history state re-enters, and that default content runs exactly once as part of entering the parent and only when nothing was recorded; reachable-graph paths and long leave/re-enter walks; plus reference equality.",
   note="Trusted: monitors.rs::history and refsim.rs. For deep history below parallel states only inclusion of the recorded states is checked model-free; the exact entry set is decided by reference equality.",
   tech="offline trace checker (snapshot at exit vs restore at entry) + reference model", ref="DESIGN.md §5 C06"),
 "C07": dict(cat="exploration",
   text="Done-event accounting per microstep from the trace (done.state.<parent> once per entered final child; done.state.<parallel> exactly when all regions are final), termination monitor (nothing but onexit content after a top-level final or the cancel event, each active state's onexit once in exit order, final configuration reported), with events still queued at termination; plus reference equality. A donedata family (11 kinds of <donedata> incl. a failing param among valid ones, content, failing content; child of a compound state and inside a parallel region; two completions with changed data; two data models) checks the payload of done.state against the evaluation rule.",
   note="Trusted: monitors.rs::done_and_termination, refsim.rs. done.invoke to an invoking parent is covered by C14's scenarios.",
   tech="offline trace checker (counting / ordering predicates) + reference model", ref="DESIGN.md §5 C07"),
 "C08": dict(cat="exploration",
   text="Generated blocks (nested if/elseif/else, foreach, assign, raise, log, script, send; failing elements at every position) in all five host positions run in rfsm-expression and ecmascript; the observed sequence of probe marks and events is compared with a reference evaluator implementing the Recommendation's error semantics.",
   note="Trusted: refsim.rs executable-content evaluator. The ecmascript data model runs in its strict mode (as the repository's W3C test configuration does). <finalize> bodies are exercised by C14.",
   tech="differential runtime oracle over probe marks (reference evaluator of the content sub-language)", ref="DESIGN.md §5 C08"),
 "C10": dict(cat="exploration",
   text="Differential run of the real lexer/parser/evaluator against an independent reference evaluator written from the README and the property statement: every operator sequence up to length 3 (thorough 4) with typed sampled operands, random trees, assignments; each also in whitespace / parenthesis / ':' variants and three times through the data model's compilation cache. Sampling over operands, so this is exploration, not proof.",
   note="Trusted: harness/src/expr_ref.rs (reference semantics, precedence table, renderer). Operand-type combinations whose meaning the README does not fix are not generated (no verdict).",
   tech="differential runtime oracle (reference evaluator) + metamorphic variants + cache-equivalence monitor", ref="DESIGN.md §5 C10"),
}

NOT_APPLICABLE = []  # every property is claimed

def main():
    checks = []
    for pid in sorted(CHECKS):
        c = CHECKS[pid]
        checks.append({
            "property_id": pid,
            "quick_cmd": "./check %s --tier quick" % pid,
            "thorough_cmd": "./check %s --tier thorough" % pid,
            "evidence_file": "/verif/evidence/%s.json" % pid,
            "replay_cmd_template": "./check replay {path}",
            "engine": "rv",
            "level_claimed": {"category": c["cat"], "text": c["text"], "design_ref": c["ref"]},
            "level_note": c["note"],
            "technique": c["tech"],
        })
    props = [json.loads(l)["id"] for l in open(os.path.join(V, "properties.jsonl"))]
    na = list(NOT_APPLICABLE)
    claimed = set(CHECKS) | set(x["property_id"] for x in na)
    for p in props:
        if p not in claimed:
            na.append({"property_id": p, "reason": "check not built yet in this session (work in progress; runtime monitoring applies, see DESIGN.md §5)"})
    m = {
        "version": 1,
        "setup_cmd": "./check build",
        "hooks": {
            "guard": "cargo feature Verif_Hooks",
            "enable": "harness/Cargo.toml.in depends on ruFsm with features [RfsmExpressionModel, xml, serializer, Trace_Method, Trace_State, Trace_Event, Verif_Hooks] (+ECMAScriptModel, BasicHttpEventIOProcessor via rv feature 'full'); ./check rebuilds /repo's working tree before every run",
            "baseline_off_cmd": "cd /repo && CARGO_NET_OFFLINE=true cargo test --workspace --no-fail-fast --offline",
            "source_commits": hook_commits(),
            "add_only": True,
        },
        "engines": [{"name": "rv", "path": "/verif/harness", "serves_properties": sorted(CHECKS), "kind_free_text": "Rust harness linking the real crate: generators, reference models, recording tracer / probe actions, offline trace checkers, fault-injecting streams, lock observer; driven by /verif/check (python, sharding + aggregation + evidence)"}],
        "checks": checks,
        "not_applicable": na,
        "notes": "Runtime monitoring only. Exit 0 held / 1 VIOLATION / 2 inconclusive (gate not met, build error). Known findings: /verif/known_findings.json.",
    }
    json.dump(m, open(os.path.join(V, "MANIFEST.json"), "w"), indent=1)
    print("MANIFEST.json written:", len(checks), "checks,", len(na), "not applicable")

if __name__ == "__main__":
    main()
