//! Reference interpreter of the W3C SCXML algorithm (Appendix D) over the generator's AST,
//! including the restricted executable-content language. Independent data structures: states
//! are indices in document (pre-)order, sets are sorted vectors, no ids shared with the
//! implementation. Produces the expected canonical trace as text lines:
//!   `X name` external event dequeued, `I name` internal event dequeued, `T uid…` transitions of a
//!   microstep, `- s` exit, `+ s` enter, `M tag(args)` mark, `Q name` done event enqueued.

use crate::docgen::*;
use std::collections::{BTreeMap, BTreeSet, HashMap, VecDeque};

pub const CANCEL: &str = "error.platform.cancel";

#[derive(Clone, Debug)]
pub struct FT {
    pub src: usize,
    pub events: Vec<String>,
    pub cond: Cond,
    pub targets: Vec<usize>,
    pub internal: bool,
    pub body: Block,
    pub uid: String,
}

#[derive(Clone, Debug)]
pub struct FS {
    pub id: String,
    pub kind: Kind,
    pub parent: Option<usize>,
    /// state / parallel / final children (document order)
    pub children: Vec<usize>,
    pub histories: Vec<usize>,
    /// explicit initial (targets, body) – None = first child
    pub initial: Option<(Vec<usize>, Block)>,
    pub trans: Vec<FT>,
    pub onentry: Vec<Block>,
    pub onexit: Vec<Block>,
    pub depth: usize,
}

#[derive(Clone, Debug)]
pub struct Flat {
    pub s: Vec<FS>,
    pub by_id: HashMap<String, usize>,
    pub dm: Dm,
    pub vars: Vec<(String, i64)>,
    pub arrays: Vec<(String, Vec<i64>)>,
    pub script: Block,
}

impl Flat {
    pub fn from_doc(doc: &Doc) -> Result<Flat, String> {
        let mut f = Flat {
            s: Vec::new(),
            by_id: HashMap::new(),
            dm: doc.dm,
            vars: doc.vars.clone(),
            arrays: doc.arrays.clone(),
            script: doc.script.clone(),
        };
        fn add(f: &mut Flat, n: &Node, parent: Option<usize>, depth: usize) -> usize {
            let idx = f.s.len();
            f.by_id.insert(n.id.clone(), idx);
            f.s.push(FS {
                id: n.id.clone(),
                kind: n.kind.clone(),
                parent,
                children: vec![],
                histories: vec![],
                initial: None,
                trans: vec![],
                onentry: n.onentry.clone(),
                onexit: n.onexit.clone(),
                depth,
            });
            for c in &n.children {
                let ci = add(f, c, Some(idx), depth + 1);
                if c.is_history() {
                    f.s[idx].histories.push(ci);
                } else {
                    f.s[idx].children.push(ci);
                }
            }
            idx
        }
        add(&mut f, &doc.root, None, 0);
        // second pass: resolve references
        fn resolve(f: &mut Flat, n: &Node) -> Result<(), String> {
            let idx = f.by_id[&n.id];
            if let Some(i) = &n.initial {
                let mut t = Vec::new();
                for x in &i.targets {
                    t.push(*f.by_id.get(x).ok_or(format!("unknown initial target {}", x))?);
                }
                f.s[idx].initial = Some((t, i.body.clone()));
            }
            for t in &n.trans {
                let mut tg = Vec::new();
                for x in &t.targets {
                    tg.push(*f.by_id.get(x).ok_or(format!("unknown target {}", x))?);
                }
                f.s[idx].trans.push(FT {
                    src: idx,
                    events: t.events.clone(),
                    cond: t.cond.clone(),
                    targets: tg,
                    internal: t.internal,
                    body: t.body.clone(),
                    uid: t.uid.clone(),
                });
            }
            for c in &n.children {
                resolve(f, c)?;
            }
            Ok(())
        }
        resolve(&mut f, &doc.root)?;
        Ok(f)
    }

    pub fn is_history(&self, i: usize) -> bool {
        matches!(self.s[i].kind, Kind::History { .. })
    }
    pub fn is_atomic(&self, i: usize) -> bool {
        !self.is_history(i) && self.s[i].children.is_empty()
    }
    pub fn is_compound(&self, i: usize) -> bool {
        self.s[i].kind == Kind::State && !self.s[i].children.is_empty()
    }
    pub fn is_parallel(&self, i: usize) -> bool {
        self.s[i].kind == Kind::Parallel
    }
    pub fn is_final(&self, i: usize) -> bool {
        self.s[i].kind == Kind::Final
    }
    /// a is a proper descendant of b
    pub fn desc(&self, a: usize, b: usize) -> bool {
        let mut c = self.s[a].parent;
        while let Some(p) = c {
            if p == b {
                return true;
            }
            c = self.s[p].parent;
        }
        false
    }
    /// proper ancestors of a up to (not including) `stop`, nearest first
    pub fn ancestors(&self, a: usize, stop: Option<usize>) -> Vec<usize> {
        let mut r = Vec::new();
        let mut c = self.s[a].parent;
        while let Some(p) = c {
            if Some(p) == stop {
                break;
            }
            r.push(p);
            c = self.s[p].parent;
        }
        r
    }
}

pub fn name_match(descriptors: &[String], name: &str) -> bool {
    for d in descriptors {
        let mut d = d.as_str();
        loop {
            if let Some(x) = d.strip_suffix(".*") {
                d = x;
                continue;
            }
            if let Some(x) = d.strip_suffix('.') {
                d = x;
                continue;
            }
            break;
        }
        if d == "*" {
            return true;
        }
        let dt: Vec<&str> = d.split('.').collect();
        let nt: Vec<&str> = name.split('.').collect();
        if dt.len() <= nt.len() && dt.iter().zip(nt.iter()).all(|(a, b)| a == b) {
            return true;
        }
    }
    false
}

#[derive(Clone, Debug, PartialEq, Eq, Hash, PartialOrd, Ord)]
pub struct MState {
    pub config: Vec<usize>,
    pub hist: Vec<(usize, Vec<usize>)>,
    pub vars: Vec<(String, i64)>,
    pub running: bool,
}

#[derive(Clone)]
pub struct Machine<'a> {
    pub f: &'a Flat,
    pub config: BTreeSet<usize>,
    pub hist: BTreeMap<usize, Vec<usize>>,
    pub vars: BTreeMap<String, i64>,
    pub arrays: BTreeMap<String, Vec<i64>>,
    pub iq: VecDeque<String>,
    pub xq: VecDeque<String>,
    pub running: bool,
    pub lines: Vec<String>,
    pub microsteps: usize,
    pub diverged: bool,
    pub max_microsteps_per_macrostep: usize,
    /// statistics for non-triviality rules
    pub stat_multi_transition_steps: usize,
    pub stat_preempted: usize,
    pub stat_history_restores: usize,
    pub stat_history_defaults: usize,
    pub stat_errors: usize,
    pub stat_max_iq: usize,
    pub stat_done_parallel: usize,
    /// (error position info) errors that occurred at a position that is neither first nor last of the block
    pub stat_mid_block_errors: usize,
    pub stat_else_taken: usize,
    pub stat_elem_assigned: usize,
}

struct Abort;

impl<'a> Machine<'a> {
    pub fn new(f: &'a Flat) -> Machine<'a> {
        Machine {
            f,
            config: BTreeSet::new(),
            hist: BTreeMap::new(),
            vars: f.vars.iter().cloned().collect(),
            arrays: f.arrays.iter().cloned().collect(),
            iq: VecDeque::new(),
            xq: VecDeque::new(),
            running: true,
            lines: Vec::new(),
            microsteps: 0,
            diverged: false,
            max_microsteps_per_macrostep: 60,
            stat_multi_transition_steps: 0,
            stat_preempted: 0,
            stat_history_restores: 0,
            stat_history_defaults: 0,
            stat_errors: 0,
            stat_max_iq: 0,
            stat_done_parallel: 0,
            stat_mid_block_errors: 0,
            stat_else_taken: 0,
            stat_elem_assigned: 0,
        }
    }

    pub fn state_key(&self) -> MState {
        MState {
            config: self.config.iter().cloned().collect(),
            hist: self.hist.iter().map(|(k, v)| (*k, v.clone())).collect(),
            vars: self.vars.iter().map(|(k, v)| (k.clone(), *v)).collect(),
            running: self.running,
        }
    }

    pub fn config_names(&self) -> Vec<String> {
        self.config.iter().map(|i| self.f.s[*i].id.clone()).collect()
    }

    fn content(&self) -> bool {
        self.f.dm != Dm::Null
    }

    fn error(&mut self) {
        self.stat_errors += 1;
        self.iq.push_back("error.execution".to_string());
    }

    // ---- expressions -------------------------------------------------------------------------
    fn eval_cond(&mut self, c: &Cond) -> Result<bool, ()> {
        Ok(match c {
            Cond::True => true,
            Cond::In(s) => match self.f.by_id.get(s) {
                Some(i) => self.config.contains(i),
                None => false,
            },
            Cond::Not(x) => !self.eval_cond(x)?,
            Cond::And(a, b) => {
                // both sides are evaluated (no short circuit in rfsm-expression; side-effect free anyway)
                let x = self.eval_cond(a)?;
                let y = self.eval_cond(b)?;
                x && y
            }
            Cond::Cmp(v, op, k) => {
                let x = *self.vars.get(v).ok_or(())?;
                match op {
                    CmpOp::Eq => x == *k,
                    CmpOp::Ne => x != *k,
                    CmpOp::Lt => x < *k,
                    CmpOp::Ge => x >= *k,
                }
            }
            Cond::Bad => return Err(()),
            Cond::Probed(_, inner) => self.eval_cond(inner)?,
        })
    }

    fn eval_expr(&self, e: &Expr) -> Result<i64, ()> {
        match e {
            Expr::Const(k) => Ok(*k),
            Expr::Var(v) => self.vars.get(v).cloned().ok_or(()),
            Expr::Add(v, k) => self.vars.get(v).map(|x| x + k).ok_or(()),
            Expr::Bad => Err(()),
            Expr::Raw(_, v) => Ok(*v),
            Expr::BadSyntax(_) => Err(()),
        }
    }

    // ---- executable content ------------------------------------------------------------------
    fn exec_block(&mut self, b: &Block) {
        if !self.content() {
            return;
        }
        let _ = self.exec_stmts(b, true);
    }

    fn exec_stmts(&mut self, b: &Block, top: bool) -> Result<(), Abort> {
        for (pos, s) in b.iter().enumerate() {
            let r = self.exec_stmt(s);
            if r.is_err() {
                if top && pos > 0 && pos + 1 < b.len() {
                    self.stat_mid_block_errors += 1;
                }
                return r;
            }
        }
        Ok(())
    }

    fn exec_stmt(&mut self, s: &Stmt) -> Result<(), Abort> {
        match s {
            Stmt::Mark(tag, args) => {
                let mut vals = Vec::new();
                for a in args {
                    match self.eval_expr(a) {
                        Ok(v) => vals.push(v.to_string()),
                        Err(_) => {
                            self.error();
                            return Err(Abort);
                        }
                    }
                }
                self.lines.push(format!("M {}({})", tag, vals.join(",")));
                Ok(())
            }
            Stmt::Gate(_) | Stmt::InProbe(_) => Ok(()),
            Stmt::Raise(e) | Stmt::SendInternal(e) => {
                self.iq.push_back(e.clone());
                self.stat_max_iq = self.stat_max_iq.max(self.iq.len());
                Ok(())
            }
            Stmt::SendSelf(e) | Stmt::SendSelfById(e) => {
                self.xq.push_back(e.clone());
                Ok(())
            }
            Stmt::Assign(v, e) => {
                if !self.vars.contains_key(v) {
                    self.error();
                    return Err(Abort);
                }
                match self.eval_expr(e) {
                    Ok(x) => {
                        self.vars.insert(v.clone(), x);
                        Ok(())
                    }
                    Err(_) => {
                        self.error();
                        Err(Abort)
                    }
                }
            }
            Stmt::AssignElem(a, k, e) => {
                if !self.arrays.get(a).map(|x| *k < x.len()).unwrap_or(false) {
                    self.error();
                    return Err(Abort);
                }
                match self.eval_expr(e) {
                    Ok(x) => {
                        self.arrays.get_mut(a).unwrap()[*k] = x;
                        self.stat_elem_assigned += 1;
                        Ok(())
                    }
                    Err(_) => {
                        self.error();
                        Err(Abort)
                    }
                }
            }
            Stmt::AssignUndeclared | Stmt::AssignBadLocation => {
                self.error();
                Err(Abort)
            }
            Stmt::If(branches, els) => {
                for (k, (c, blk)) in branches.iter().enumerate() {
                    match self.eval_cond(c) {
                        Ok(true) => {
                            if k > 0 {
                                self.stat_else_taken += 1;
                            }
                            return self.exec_stmts(blk, false);
                        }
                        Ok(false) => {}
                        Err(_) => {
                            // counts as false, error.execution is raised, evaluation goes on
                            self.error();
                        }
                    }
                }
                if let Some(e) = els {
                    self.stat_else_taken += 1;
                    return self.exec_stmts(e, false);
                }
                Ok(())
            }
            Stmt::Foreach { array, item, index, body } => {
                let items: Vec<i64> = match array {
                    ArrSrc::Var(v) => match self.arrays.get(v) {
                        Some(a) => a.clone(),
                        None => {
                            self.error();
                            return Err(Abort);
                        }
                    },
                    ArrSrc::Lit(l) => l.clone(),
                    ArrSrc::NotArray(_) | ArrSrc::Bad => {
                        self.error();
                        return Err(Abort);
                    }
                };
                for (i, x) in items.iter().enumerate() {
                    self.vars.insert(item.clone(), *x);
                    if let Some(ix) = index {
                        self.vars.insert(ix.clone(), i as i64);
                    }
                    self.exec_stmts(body, false)?;
                }
                Ok(())
            }
            Stmt::Log(e) | Stmt::Script(e) => match self.eval_expr(e) {
                Ok(_) => Ok(()),
                Err(_) => {
                    self.error();
                    Err(Abort)
                }
            },
            Stmt::SendBad(_) => {
                self.error();
                Err(Abort)
            }
        }
    }

    // ---- selection -----------------------------------------------------------------------------
    fn effective_targets(&self, t: &FT) -> Vec<usize> {
        let mut r: Vec<usize> = Vec::new();
        for &s in &t.targets {
            if self.f.is_history(s) {
                if let Some(h) = self.hist.get(&s) {
                    for x in h {
                        if !r.contains(x) {
                            r.push(*x);
                        }
                    }
                } else {
                    let d = &self.f.s[s].trans[0];
                    for x in self.effective_targets(d) {
                        if !r.contains(&x) {
                            r.push(x);
                        }
                    }
                }
            } else if !r.contains(&s) {
                r.push(s);
            }
        }
        r
    }

    /// None = no domain (targetless)
    fn domain(&self, t: &FT) -> Option<usize> {
        let ts = self.effective_targets(t);
        if ts.is_empty() {
            return None;
        }
        if t.internal && self.f.is_compound(t.src) && ts.iter().all(|&x| self.f.desc(x, t.src)) {
            return Some(t.src);
        }
        // least common compound ancestor of source and targets
        for anc in self.f.ancestors(t.src, None) {
            let ok_kind = anc == 0 || self.f.is_compound(anc);
            if ok_kind && ts.iter().all(|&x| self.f.desc(x, anc)) {
                return Some(anc);
            }
        }
        Some(0)
    }

    fn exit_set(&self, ts: &[&FT]) -> Vec<usize> {
        let mut r = Vec::new();
        for t in ts {
            if t.targets.is_empty() {
                continue;
            }
            if let Some(d) = self.domain(t) {
                for &s in &self.config {
                    if self.f.desc(s, d) && !r.contains(&s) {
                        r.push(s);
                    }
                }
            }
        }
        r
    }

    fn select(&mut self, event: Option<&str>) -> Vec<FT> {
        let atomic: Vec<usize> = self.config.iter().cloned().filter(|&s| self.f.is_atomic(s)).collect();
        let mut enabled: Vec<FT> = Vec::new();
        for a in atomic {
            let mut chain = vec![a];
            chain.extend(self.f.ancestors(a, None));
            'search: for s in chain {
                let trs = self.f.s[s].trans.clone();
                for t in trs {
                    let name_ok = match event {
                        None => t.events.is_empty(),
                        Some(n) => !t.events.is_empty() && name_match(&t.events, n),
                    };
                    if !name_ok {
                        continue;
                    }
                    let c = match self.eval_cond(&t.cond) {
                        Ok(b) => b,
                        Err(_) => {
                            self.error();
                            false
                        }
                    };
                    if c {
                        if !enabled.iter().any(|x| x.uid == t.uid) {
                            enabled.push(t);
                        }
                        break 'search;
                    }
                }
            }
        }
        // remove conflicting
        let mut filtered: Vec<FT> = Vec::new();
        for t1 in enabled {
            let mut preempted = false;
            let mut to_remove = Vec::new();
            for t2 in &filtered {
                let e1 = self.exit_set(&[&t1]);
                let e2 = self.exit_set(&[t2]);
                if e1.iter().any(|x| e2.contains(x)) {
                    if self.f.desc(t1.src, t2.src) {
                        to_remove.push(t2.uid.clone());
                    } else {
                        preempted = true;
                        break;
                    }
                }
            }
            if !preempted {
                if !to_remove.is_empty() {
                    self.stat_preempted += to_remove.len();
                }
                filtered.retain(|x| !to_remove.contains(&x.uid));
                filtered.push(t1);
            } else {
                self.stat_preempted += 1;
            }
        }
        filtered
    }

    // ---- entering ------------------------------------------------------------------------------
    fn add_descendants(
        &mut self,
        s: usize,
        to_enter: &mut Vec<usize>,
        default_entry: &mut Vec<usize>,
        hist_content: &mut BTreeMap<usize, Block>,
    ) {
        if self.f.is_history(s) {
            let parent = self.f.s[s].parent.unwrap();
            if let Some(h) = self.hist.get(&s).cloned() {
                self.stat_history_restores += 1;
                for &x in &h {
                    self.add_descendants(x, to_enter, default_entry, hist_content);
                }
                for &x in &h {
                    self.add_ancestors(x, Some(parent), to_enter, default_entry, hist_content);
                }
            } else {
                self.stat_history_defaults += 1;
                let d = self.f.s[s].trans[0].clone();
                hist_content.insert(parent, d.body.clone());
                for &x in &d.targets {
                    self.add_descendants(x, to_enter, default_entry, hist_content);
                }
                for &x in &d.targets {
                    self.add_ancestors(x, Some(parent), to_enter, default_entry, hist_content);
                }
            }
        } else {
            if !to_enter.contains(&s) {
                to_enter.push(s);
            }
            if self.f.is_compound(s) {
                if !default_entry.contains(&s) {
                    default_entry.push(s);
                }
                let targets: Vec<usize> = match &self.f.s[s].initial {
                    Some((t, _)) => t.clone(),
                    None => vec![self.f.s[s].children[0]],
                };
                for &x in &targets {
                    self.add_descendants(x, to_enter, default_entry, hist_content);
                }
                for &x in &targets {
                    self.add_ancestors(x, Some(s), to_enter, default_entry, hist_content);
                }
            } else if self.f.is_parallel(s) {
                for c in self.f.s[s].children.clone() {
                    if !to_enter.iter().any(|&x| self.f.desc(x, c)) {
                        self.add_descendants(c, to_enter, default_entry, hist_content);
                    }
                }
            }
        }
    }

    fn add_ancestors(
        &mut self,
        s: usize,
        stop: Option<usize>,
        to_enter: &mut Vec<usize>,
        default_entry: &mut Vec<usize>,
        hist_content: &mut BTreeMap<usize, Block>,
    ) {
        // getProperAncestors(state, ancestor): empty if `ancestor` is state's parent, state itself or a descendant
        if let Some(st) = stop {
            if st == s || self.f.desc(st, s) {
                return;
            }
        }
        for anc in self.f.ancestors(s, stop) {
            if !to_enter.contains(&anc) {
                to_enter.push(anc);
            }
            if self.f.is_parallel(anc) {
                for c in self.f.s[anc].children.clone() {
                    if !to_enter.iter().any(|&x| self.f.desc(x, c)) {
                        self.add_descendants(c, to_enter, default_entry, hist_content);
                    }
                }
            }
        }
    }

    fn in_final_state(&self, s: usize) -> bool {
        if self.f.is_compound(s) {
            self.f.s[s].children.iter().any(|&c| self.f.is_final(c) && self.config.contains(&c))
        } else if self.f.is_parallel(s) {
            self.f.s[s].children.iter().all(|&c| self.in_final_state(c))
        } else {
            false
        }
    }

    fn enter_states(&mut self, ts: &[FT]) {
        let mut to_enter = Vec::new();
        let mut default_entry = Vec::new();
        let mut hist_content = BTreeMap::new();
        for t in ts {
            for &s in &t.targets {
                self.add_descendants(s, &mut to_enter, &mut default_entry, &mut hist_content);
            }
            let dom = self.domain(t);
            for s in self.effective_targets(t) {
                self.add_ancestors(s, dom, &mut to_enter, &mut default_entry, &mut hist_content);
            }
        }
        to_enter.sort();
        // the <scxml> element itself is never "entered"
        to_enter.retain(|&s| s != 0);
        for s in to_enter {
            self.lines.push(format!("+ {}", self.f.s[s].id));
            self.config.insert(s);
            for b in self.f.s[s].onentry.clone() {
                self.exec_block(&b);
            }
            if default_entry.contains(&s) {
                if let Some((_, body)) = self.f.s[s].initial.clone() {
                    self.exec_block(&body);
                }
            }
            if let Some(b) = hist_content.get(&s).cloned() {
                self.exec_block(&b);
            }
            if self.f.is_final(s) {
                let parent = self.f.s[s].parent.unwrap();
                if parent == 0 {
                    self.running = false;
                } else {
                    let name = format!("done.state.{}", self.f.s[parent].id);
                    self.lines.push(format!("Q {}", name));
                    self.iq.push_back(name);
                    if let Some(gp) = self.f.s[parent].parent {
                        if self.f.is_parallel(gp) && self.f.s[gp].children.iter().all(|&c| self.in_final_state(c)) {
                            self.stat_done_parallel += 1;
                            let name = format!("done.state.{}", self.f.s[gp].id);
                            self.lines.push(format!("Q {}", name));
                            self.iq.push_back(name);
                        }
                    }
                    self.stat_max_iq = self.stat_max_iq.max(self.iq.len());
                }
            }
        }
    }

    fn microstep(&mut self, ts: Vec<FT>) {
        self.microsteps += 1;
        if ts.len() > 1 {
            self.stat_multi_transition_steps += 1;
        }
        self.lines.push(format!("T {}", ts.iter().map(|t| t.uid.clone()).collect::<Vec<_>>().join(" ")));
        // exit
        let refs: Vec<&FT> = ts.iter().collect();
        let mut ex = self.exit_set(&refs);
        ex.sort();
        ex.reverse();
        // history is recorded from the configuration before anything is exited
        let cfg: Vec<usize> = self.config.iter().cloned().collect();
        for &s in &ex {
            for &h in &self.f.s[s].histories.clone() {
                let deep = matches!(self.f.s[h].kind, Kind::History { deep: true });
                let v: Vec<usize> = if deep {
                    cfg.iter().cloned().filter(|&x| self.f.is_atomic(x) && self.f.desc(x, s)).collect()
                } else {
                    cfg.iter().cloned().filter(|&x| self.f.s[x].parent == Some(s)).collect()
                };
                self.hist.insert(h, v);
            }
        }
        for &s in &ex {
            self.lines.push(format!("- {}", self.f.s[s].id));
            for b in self.f.s[s].onexit.clone() {
                self.exec_block(&b);
            }
            self.config.remove(&s);
        }
        for t in &ts {
            let b = t.body.clone();
            self.exec_block(&b);
        }
        self.enter_states(&ts);
    }

    // ---- main loop -----------------------------------------------------------------------------
    /// all `events` are already in the external queue when the session starts
    pub fn start_prequeued(&mut self, events: &[String]) {
        for e in events {
            self.xq.push_back(e.clone());
        }
        self.start();
    }

    pub fn start(&mut self) {
        let script = self.f.script.clone();
        self.exec_block(&script);
        let targets: Vec<usize> = match &self.f.s[0].initial {
            Some((t, _)) => t.clone(),
            None => {
                if self.f.s[0].children.is_empty() {
                    vec![]
                } else {
                    vec![self.f.s[0].children[0]]
                }
            }
        };
        let init = FT {
            src: 0,
            events: vec![],
            cond: Cond::True,
            targets,
            internal: true,
            body: vec![],
            uid: "init".into(),
        };
        self.enter_states(&[init]);
        self.run_to_idle();
    }

    /// complete macrosteps until the external queue is empty (or the machine stops)
    pub fn run_to_idle(&mut self) {
        let mut macrosteps = 0;
        loop {
            macrosteps += 1;
            if macrosteps > 200 || self.lines.len() > 20000 {
                // self-sustaining external events (a transition on x that sends x again)
                self.diverged = true;
                return;
            }
            // finish the macrostep
            let mut steps = 0;
            while self.running {
                let mut enabled = self.select(None);
                if enabled.is_empty() {
                    match self.iq.pop_front() {
                        None => break,
                        Some(ev) => {
                            self.lines.push(format!("I {}", ev));
                            enabled = self.select(Some(&ev));
                        }
                    }
                }
                if !enabled.is_empty() {
                    self.microstep(enabled);
                }
                steps += 1;
                if steps > self.max_microsteps_per_macrostep {
                    self.diverged = true;
                    return;
                }
            }
            if !self.running {
                self.exit_interpreter();
                return;
            }
            match self.xq.pop_front() {
                None => return,
                Some(ev) => {
                    self.lines.push(format!("X {}", ev));
                    if ev == CANCEL {
                        self.running = false;
                        self.exit_interpreter();
                        return;
                    }
                    let enabled = self.select(Some(&ev));
                    if !enabled.is_empty() {
                        self.microstep(enabled);
                    }
                }
            }
        }
    }

    pub fn feed(&mut self, ev: &str) {
        if !self.running {
            return;
        }
        self.xq.push_back(ev.to_string());
        self.run_to_idle();
    }

    fn exit_interpreter(&mut self) {
        let mut ex: Vec<usize> = self.config.iter().cloned().collect();
        ex.sort();
        ex.reverse();
        for s in ex {
            for b in self.f.s[s].onexit.clone() {
                self.exec_block(&b);
            }
            self.config.remove(&s);
        }
    }

    /// events for which some transition could be selected in the current configuration (path guide)
    pub fn interesting_events(&self, alphabet: &[String]) -> Vec<String> {
        let mut r = Vec::new();
        for e in alphabet {
            let mut hit = false;
            for &s in &self.config {
                for t in &self.f.s[s].trans {
                    if !t.events.is_empty() && name_match(&t.events, e) {
                        hit = true;
                    }
                }
            }
            if hit {
                r.push(e.clone());
            }
        }
        r
    }
}
