//! C10 – rfsm-expression evaluation follows the documented language semantics.
use crate::expr_ref::*;
use crate::exprrun::*;
use crate::report::{Args, Report};
use crate::rng::Rng;
use rufsm::datamodel::expression_engine::RFsmExpressionDatamodel;
use serde_json::json;
use std::sync::atomic::{AtomicUsize, Ordering};

static SOURCE_IDS: AtomicUsize = AtomicUsize::new(1_000_000);

fn outcome_matches(exp: &Out, real: &Real) -> Option<bool> {
    match (exp, real) {
        (Out::Unspec(_), _) => None,
        (Out::Val(v), Real::Val(r)) => Some(v.same(r)),
        (Out::Error(_), Real::Err(_)) => Some(true),
        _ => Some(false),
    }
}

fn shape(e: &E) -> String {
    match e {
        E::Lit(v) => format!("{:?}", v.ty()),
        E::Var(n) => format!("${}", n),
        E::Paren(x) => format!("({})", shape(x)),
        E::ArrLit(i) => format!("[{}]", i.iter().map(shape).collect::<Vec<_>>().join(",")),
        E::MapLit(i) => format!("{{{}}}", i.iter().map(|(k, x)| format!("{}:{}", k, shape(x))).collect::<Vec<_>>().join(",")),
        E::Bin(op, l, r) => format!("{:?}({},{})", op, shape(l), shape(r)),
        E::Not(x) => format!("Not({})", shape(x)),
        E::Member(b, n) => format!("{}.{}", shape(b), n),
        E::Index(b, i) => format!("{}[{}]", shape(b), shape(i)),
        E::Call(n, a) => format!("{}({})", n, a.iter().map(shape).collect::<Vec<_>>().join(",")),
        E::MCall(x, n, a) => format!("{}.{}({})", shape(x), n, a.iter().map(shape).collect::<Vec<_>>().join(",")),
        E::Assign(l, r, c) => format!("{}{}{}", shape(l), if *c { "?=" } else { "=" }, shape(r)),
        E::Seq(i) => i.iter().map(shape).collect::<Vec<_>>().join(";"),
    }
}

/// candidate simplifications of an expression (children, and children replaced by their value)
fn shrink_candidates(e: &E) -> Vec<E> {
    let mut c = Vec::new();
    let lit_of = |x: &E| -> Option<E> {
        let mut s = default_store();
        match eval(x, &mut s) {
            Out::Val(v) => match v {
                V::Int(_) | V::Dbl(_) | V::Str(_) | V::Bool(_) => Some(E::Lit(v)),
                _ => None,
            },
            _ => None,
        }
    };
    match e {
        E::Bin(op, l, r) => {
            c.push((**l).clone());
            c.push((**r).clone());
            if !matches!(**l, E::Lit(_)) {
                if let Some(x) = lit_of(l) {
                    c.push(E::Bin(*op, Box::new(x), r.clone()));
                }
            }
            if !matches!(**r, E::Lit(_)) {
                if let Some(x) = lit_of(r) {
                    c.push(E::Bin(*op, l.clone(), Box::new(x)));
                }
            }
            for x in shrink_candidates(l) {
                c.push(E::Bin(*op, Box::new(x), r.clone()));
            }
            for x in shrink_candidates(r) {
                c.push(E::Bin(*op, l.clone(), Box::new(x)));
            }
        }
        E::Not(x) | E::Paren(x) => {
            c.push((**x).clone());
        }
        E::Call(_, a) | E::ArrLit(a) | E::Seq(a) => {
            for x in a {
                c.push(x.clone());
            }
        }
        E::MCall(x, _, a) => {
            c.push((**x).clone());
            for y in a {
                c.push(y.clone());
            }
        }
        E::Index(b, i) => {
            c.push((**b).clone());
            c.push((**i).clone());
        }
        E::Assign(l, r, cr) => {
            c.push((**r).clone());
            if let Some(x) = lit_of(r) {
                if !matches!(**r, E::Lit(_)) {
                    c.push(E::Assign(l.clone(), Box::new(x), *cr));
                }
            }
        }
        _ => {}
    }
    c
}

fn mismatch(e: &E) -> Option<(String, Out, Real)> {
    let text = render(e).canonical();
    let mut st = default_store();
    let exp = eval(e, &mut st);
    let gd = new_global(&default_store());
    let real = eval_fresh(&text, &gd);
    match outcome_matches(&exp, &real) {
        Some(false) => Some((text, exp, real)),
        _ => None,
    }
}

fn minimize(e: &E) -> E {
    let mut cur = e.clone();
    for _ in 0..40 {
        let mut improved = false;
        for c in shrink_candidates(&cur) {
            if mismatch(&c).is_some() {
                cur = c;
                improved = true;
                break;
            }
        }
        if !improved {
            break;
        }
    }
    cur
}

fn show_out(o: &Out) -> String {
    match o {
        Out::Val(v) => v.show(),
        Out::Error(e) => format!("Error({})", e),
        Out::Unspec(e) => format!("Unspecified({})", e),
    }
}

/// classification of a minimal failing expression into a finding key
fn classify(e: &E, real: &Real) -> String {
    // grouping of equal-precedence operators
    if let E::Bin(op1, l, c) = e {
        if let E::Bin(op2, a, b) = &**l {
            if op1.prec() == op2.prec() {
                let alt = E::Bin(*op2, a.clone(), Box::new(E::Bin(*op1, b.clone(), c.clone())));
                let mut st = default_store();
                if let (Out::Val(av), Real::Val(rv)) = (eval(&alt, &mut st), real) {
                    if av.same(rv) {
                        return format!("grouping-right-to-left:prec{}", op1.prec());
                    }
                }
                return format!("grouping:prec{}", op1.prec());
            }
        }
    }
    if let Real::Panic(p) = real {
        return format!("panic:{}", p.rsplit(" @ ").next().unwrap_or("?"));
    }
    fn member_e(e: &E) -> bool {
        match e {
            E::Member(b, n) => n.starts_with('e') || n.starts_with('E') || member_e(b),
            _ => false,
        }
    }
    if member_e(e) {
        return "member-name-starting-with-e".to_string();
    }
    format!("shape:{}", shape(e))
}

struct Ctx<'a> {
    rep: &'a mut Report,
    rng: Rng,
    dm: RFsmExpressionDatamodel,
    dm_gd: rufsm::datamodel::GlobalDataArc,
}

impl<'a> Ctx<'a> {
    fn report_violation(&mut self, kind: &str, e: &E, text: &str, exp: &Out, real: &Real) {
        let min = if kind == "value" { minimize(e) } else { e.clone() };
        let (mtext, mexp, mreal) = match mismatch(&min) {
            Some(x) => x,
            None => (text.to_string(), Out::Unspec("".into()), real.clone()),
        };
        let key = if kind == "value" {
            classify(&min, &mreal)
        } else {
            format!("{}:{}", kind, shape(&min))
        };
        self.rep.violation(
            &key,
            &format!(
                "expression `{}` evaluates to {} but the documented semantics give {}",
                mtext,
                mreal.show(),
                show_out(&mexp)
            ),
            json!({"kind": kind, "expression": text, "expected": show_out(exp), "observed": real.show(),
                   "minimized": mtext, "minimized_expected": show_out(&mexp), "minimized_observed": mreal.show(),
                   "store": "default_store()"}),
        );
    }

    /// one expression: fresh, variants, cache. returns false on violation
    fn check(&mut self, e: &E, family: &str) {
        let toks = render(e);
        let text = toks.canonical();
        let mut st = default_store();
        let exp = eval(e, &mut st);
        if let Out::Unspec(_) = exp {
            self.rep.count("skipped_unspecified", 1);
            return;
        }
        self.rep.evaluations += 1;
        self.rep.count(&format!("family_{}", family), 1);
        let gd = new_global(&default_store());
        let real = eval_fresh(&text, &gd);
        let ok = outcome_matches(&exp, &real).unwrap();
        if !ok {
            self.report_violation("value", e, &text, &exp, &real);
            return;
        }
        // store after assignments
        if let Out::Val(_) = exp {
            match read_store(&gd) {
                Ok(after) => {
                    let same = after.len() == st.len() && st.iter().all(|(k, v)| after.get(k).map(|w| v.same(w)).unwrap_or(false));
                    if !same {
                        self.report_violation("store", e, &text, &exp, &real);
                        return;
                    }
                }
                Err(_) => {
                    self.report_violation("store-locked", e, &text, &exp, &real);
                    return;
                }
            }
        }
        // non-triviality
        let mut nontrivial = false;
        if grouping_sensitive(e) {
            nontrivial = true;
            self.rep.count("nontrivial_grouping_sensitive", 1);
        }
        if mixes_int_dbl(e) {
            nontrivial = true;
            self.rep.count("nontrivial_int_double_mix", 1);
        }
        if saturates(e) {
            nontrivial = true;
            self.rep.count("nontrivial_saturating", 1);
        }
        if nontrivial {
            self.rep.nontrivial_key(&text);
        }
        if self.rep.samples.len() < self.rep.max_samples && (nontrivial || self.rng.chance(1, 50)) {
            self.rep.sample(json!({"expression": text, "expected": show_out(&exp), "observed": real.show(), "family": family}));
        }
        // metamorphic variants: whitespace, redundant parentheses, ':' for '/'
        for k in 0..3 {
            let vtext = match k {
                0 => toks.spaced(&mut self.rng),
                1 => {
                    let pe = add_parens(e, &mut self.rng, 2);
                    render(&pe).spaced(&mut self.rng)
                }
                _ => render_colon(e).canonical(),
            };
            if vtext == text {
                continue;
            }
            self.rep.count("variants", 1);
            let gd2 = new_global(&default_store());
            let r2 = eval_fresh(&vtext, &gd2);
            if outcome_matches(&exp, &r2) != Some(true) {
                let kind = ["whitespace", "parentheses", "colon-division"][k];
                self.rep.violation(
                    &format!("variant-{}:{}", kind, classify(e, &r2)),
                    &format!("variant `{}` of `{}` evaluates to {} instead of {}", vtext, text, r2.show(), show_out(&exp)),
                    json!({"kind": kind, "expression": text, "variant": vtext, "expected": show_out(&exp), "observed": r2.show()}),
                );
                return;
            }
        }
        // cache equivalence: the same source id three times on identical stores
        let id = SOURCE_IDS.fetch_add(1, Ordering::Relaxed);
        let mut first: Option<Real> = None;
        for round in 0..3 {
            fill_store(&self.dm_gd, &default_store());
            let r = eval_cached(&mut self.dm, &text, id);
            self.rep.count("cached_evaluations", 1);
            // Datamodel::execute refuses array / map results by design
            let comparable = match (&exp, &r) {
                (Out::Val(V::Arr(_)), Real::Err(m)) | (Out::Val(V::Map(_)), Real::Err(m)) if m.starts_with("Illegal Result") => false,
                _ => true,
            };
            if comparable && outcome_matches(&exp, &r) != Some(true) {
                self.rep.violation(
                    &format!("cache-round{}:{}", round, shape(e)),
                    &format!("`{}` via the data model (source id {}, round {}) gives {} instead of {}", text, id, round, r.show(), show_out(&exp)),
                    json!({"kind": "cache", "expression": text, "round": round, "expected": show_out(&exp), "observed": r.show()}),
                );
                return;
            }
            if let Some(f) = &first {
                let same = match (f, &r) {
                    (Real::Val(a), Real::Val(b)) => a.same(b),
                    (Real::Err(_), Real::Err(_)) => true,
                    _ => false,
                };
                if !same {
                    self.rep.violation(
                        &format!("cache-differs:{}", shape(e)),
                        &format!("`{}` cached evaluation {} differs from first {}", text, r.show(), f.show()),
                        json!({"kind": "cache", "expression": text, "round": round}),
                    );
                    return;
                }
            } else {
                first = Some(r);
            }
        }
    }
}

fn grouping_sensitive(e: &E) -> bool {
    match e {
        E::Bin(op1, l, c) => {
            if let E::Bin(op2, a, b) = &**l {
                if op1.prec() == op2.prec() {
                    let alt = E::Bin(*op2, a.clone(), Box::new(E::Bin(*op1, b.clone(), c.clone())));
                    let mut s1 = default_store();
                    let mut s2 = default_store();
                    match (eval(e, &mut s1), eval(&alt, &mut s2)) {
                        (Out::Val(x), Out::Val(y)) => {
                            if !x.same(&y) {
                                return true;
                            }
                        }
                        (Out::Val(_), _) => return true,
                        _ => {}
                    }
                }
            }
            grouping_sensitive(l) || grouping_sensitive(c)
        }
        E::Not(x) | E::Paren(x) => grouping_sensitive(x),
        _ => false,
    }
}

fn mixes_int_dbl(e: &E) -> bool {
    match e {
        E::Bin(_, l, r) => {
            let mut s = default_store();
            let a = eval(l, &mut s);
            let b = eval(r, &mut s);
            if let (Out::Val(x), Out::Val(y)) = (a, b) {
                if (x.ty() == Ty::Int && y.ty() == Ty::Dbl) || (x.ty() == Ty::Dbl && y.ty() == Ty::Int) {
                    return true;
                }
            }
            mixes_int_dbl(l) || mixes_int_dbl(r)
        }
        E::Not(x) | E::Paren(x) => mixes_int_dbl(x),
        _ => false,
    }
}

fn saturates(e: &E) -> bool {
    match e {
        E::Bin(op, l, r) => {
            let mut s = default_store();
            if let (Out::Val(V::Int(a)), Out::Val(V::Int(b))) = (eval(l, &mut s), eval(r, &mut s)) {
                let of = match op {
                    Op::Add => a.checked_add(b).is_none(),
                    Op::Sub => a.checked_sub(b).is_none(),
                    Op::Mul => a.checked_mul(b).is_none(),
                    _ => false,
                };
                if of {
                    return true;
                }
            }
            saturates(l) || saturates(r)
        }
        E::Not(x) | E::Paren(x) => saturates(x),
        _ => false,
    }
}

/// hand-computed cases (README examples and the property statement); also the model self-test
pub fn core_corpus() -> Vec<(&'static str, V)> {
    let arr = |v: Vec<V>| V::Arr(v);
    vec![
        ("10 - 2 - 3", V::Int(5)),
        ("100 / 10 / 5", V::Dbl(2.0)),
        ("2 * 3 % 4", V::Int(2)),
        ("1 + 2 * 3", V::Int(7)),
        ("(1 + 2) * 3", V::Int(9)),
        ("7 % 4", V::Int(3)),
        ("7 / 2", V::Dbl(3.5)),
        ("1 + 1.5", V::Dbl(2.5)),
        ("9223372036854775807 + 1", V::Int(i64::MAX)),
        ("-9223372036854775808 - 1", V::Int(i64::MIN)),
        ("9223372036854775807 * 2", V::Int(i64::MAX)),
        ("'a' + 'b' + 'c'", V::Str("abc".into())),
        ("['a'] + ['b'] + 'c' == ['a','b'] + ['c']", V::Bool(true)),
        ("{'b':'abc'} + {'a':123} == {'a':123, 'b':'abc'}", V::Bool(true)),
        ("{'a':1} == {'a':2} + {'a':1}", V::Bool(true)),
        ("1 == 1.0", V::Bool(true)),
        ("1 < 2 == true", V::Bool(true)),
        ("'abc' < 'abd'", V::Bool(true)),
        ("!true | true", V::Bool(true)),
        ("true | false & false", V::Bool(true)),
        ("{'true':'yes', 'false':'no'}[ vi == 7 ]", V::Str("yes".into())),
        ("vm.in.z", V::Int(9)),
        ("vm.k[1]", V::Int(5)),
        ("va[0] + va[2]", V::Int(4)),
        ("length('abc')", V::Int(3)),
        ("'abc'.indexOf('bc')", V::Int(1)),
        ("[1,2] + 3", arr(vec![V::Int(1), V::Int(2), V::Int(3)])),
        ("8 - 4 + 2", V::Int(6)),
        ("2 - 3 - 4 - 5", V::Int(-10)),
        ("64 / 4 / 2 / 2", V::Dbl(4.0)),
    ]
}

pub fn run(args: &Args, rep: &mut Report) {
    let dm_gd = new_global(&default_store());
    let dm = RFsmExpressionDatamodel::new(dm_gd.clone());
    let mut ctx = Ctx {
        rep,
        rng: args.rng(10),
        dm,
        dm_gd,
    };

    // (0) core corpus – fixed, every shard 0 runs it (gate: grouping-sensitive cases always present)
    if args.shard == 0 {
        for (text, expected) in core_corpus() {
            ctx.rep.evaluations += 1;
            ctx.rep.count("family_core", 1);
            let gd = new_global(&default_store());
            let real = eval_fresh(text, &gd);
            let ok = matches!(&real, Real::Val(v) if v.same(&expected));
            ctx.rep.nontrivial_key(text);
            if !ok {
                // classify through the AST when we can express it as a chain
                let key = if text.contains(" - ") && !text.contains('(') && text.matches(" - ").count() >= 2 {
                    "grouping-right-to-left:prec6".to_string()
                } else if text.contains(" / ") && text.matches(" / ").count() >= 2 {
                    "grouping-right-to-left:prec5".to_string()
                } else {
                    format!("core:{}", text)
                };
                ctx.rep.violation(
                    &key,
                    &format!("`{}` evaluates to {} but the documented semantics give {}", text, real.show(), expected.show()),
                    json!({"kind": "core", "expression": text, "expected": expected.show(), "observed": real.show()}),
                );
            }
        }
    }

    // (a) all operator sequences of length 1..3 (thorough: 4), operands typed and sampled
    let max_len = if args.thorough() { 4 } else { 3 };
    let per_seq = args.scale(24, 60);
    let mut idx = 0usize;
    let mut infeasible = 0u64;
    let mut seqs = 0u64;
    for len in 1..=max_len {
        let total = 13usize.pow(len as u32);
        for code in 0..total {
            idx += 1;
            if !args.mine(idx) || !args.keep(idx / args.nshards.max(1), 12) {
                continue;
            }
            let mut ops = Vec::new();
            let mut c = code;
            for _ in 0..len {
                ops.push(ALL_OPS[c % 13]);
                c /= 13;
            }
            seqs += 1;
            let per = if len >= 4 { std::cmp::max(2, per_seq / 8) } else { per_seq };
            let mut produced = 0;
            for k in 0..per {
                // '!' placements: mostly none, sometimes one or two operands negated
                let nots = if k % 4 == 3 { ctx.rng.below(1 << (len + 1)) as u32 } else { 0 };
                match chain_instance(&ops, nots, &mut ctx.rng) {
                    Some(e) => {
                        produced += 1;
                        ctx.check(&e, "chain");
                    }
                    None => {}
                }
            }
            if produced == 0 {
                infeasible += 1;
            }
        }
    }
    ctx.rep.count("operator_sequences", seqs);
    ctx.rep.count("operator_sequences_type_infeasible", infeasible);
    ctx.rep.exhaustive = Some(false);
    ctx.rep.notes.push(format!(
        "operator sequences of length 1..{} over the 13 binary operators enumerated completely (split over shards); operands sampled",
        max_len
    ));

    // (b) random larger trees
    let n_trees = args.scale(2500, 60000);
    for _ in 0..n_trees {
        let ty = *ctx.rng.pick(&[Ty::Int, Ty::Dbl, Ty::Str, Ty::Bool, Ty::Arr, Ty::Map]);
        let depth = 2 + ctx.rng.below(5) as u32;
        let e = gen_tree(ty, depth, &mut ctx.rng);
        ctx.check(&e, "tree");
    }
    // (c) assignments
    let n_assign = args.scale(600, 10000);
    for _ in 0..n_assign {
        let e = gen_assign(&mut ctx.rng);
        ctx.check(&e, "assign");
    }
    // (e) the cache serves what a fresh compilation gives, also after values built from it were changed in place:
    // one data model (one compilation cache); `va = <literal>` (source id S1) - read - change elements of `va` in
    // place (source ids S2…) - `va = <literal>` again from the cache - read: every round must give the literal
    if args.shard == 0 || args.miri() {
        let cases: Vec<(&str, Vec<&str>)> = vec![
            ("[0, 0]", vec!["va[0] = va[0] + 1"]),
            ("[0, 0, 7]", vec!["va[2] = 'x'", "va[0] = va[2]"]),
            ("{'n': 0}", vec!["va.n = va.n + 5"]),
            ("[[1], 'x']", vec!["va[0][0] = 9", "va[1] = 'y'"]),
            ("{'a': [1, 2], 'b': {'c': 3}}", vec!["va.b.c = 4", "va.a[1] = 7"]),
            ("[1.5, 'str', true]", vec!["va[1] = 'other'", "va[2] = false", "va[0] = va[0] * 2"]),
            ("[[0, 0], [0, 0]]", vec!["va[1][1] = va[1][1] + 1", "va[0] = va[1]"]),
            ("{'k': 'v', 'l': [null]}", vec!["va.k = va.k + '!'", "va.l[0] = 1"]),
        ];
        for (ci, (lit, muts)) in cases.iter().enumerate() {
            if !args.keep(ci, 3) {
                continue;
            }
            let gd = new_global(&default_store());
            let mut dm = RFsmExpressionDatamodel::new(gd.clone());
            let fresh = {
                let g2 = new_global(&default_store());
                eval_fresh(lit, &g2)
            };
            let want = match &fresh {
                Real::Val(v) => v.clone(),
                other => {
                    ctx.rep.notes.push(format!("literal {} does not evaluate: {}", lit, other.show()));
                    continue;
                }
            };
            let base = 2_000_000 + ci * 100;
            let assign = format!("va = {}", lit);
            for round in 0..4 {
                ctx.rep.evaluations += 1;
                ctx.rep.count("family_cache_purity_rounds", 1);
                let r = eval_cached(&mut dm, &assign, base);
                let got = read_store(&gd).ok().and_then(|s| s.get("va").cloned());
                let ok = matches!(&got, Some(v) if v.same(&want)) && !matches!(r, Real::Err(_) | Real::Panic(_));
                if !ok {
                    ctx.rep.violation(
                        &format!("cache-literal-changed-by-in-place-write:{}", if lit.starts_with('{') { "map" } else { "array" }),
                        &format!(
                            "`{}` served from the compilation cache in round {} (after the in-place writes {:?} to the variable it had been assigned to) gives {} - a fresh compilation gives {}",
                            assign,
                            round,
                            muts,
                            got.as_ref().map(|v| v.show()).unwrap_or_else(|| r.show()),
                            want.show()
                        ),
                        json!({"kind": "cache-purity", "expression": assign, "in_place_writes": muts, "round": round, "expected": want.show(), "observed": got.as_ref().map(|v| v.show())}),
                    );
                    break;
                }
                ctx.rep.nontrivial_key(&format!("purity:{}:{}", lit, round));
                for (mi, m) in muts.iter().enumerate() {
                    let _ = eval_cached(&mut dm, m, base + 1 + mi);
                }
                // the writes took effect on the variable (else the next round proves nothing)
                match read_store(&gd).ok().and_then(|s| s.get("va").cloned()) {
                    Some(v) if !v.same(&want) => ctx.rep.count("cache_purity_in_place_writes_effective", 1),
                    _ => ctx.rep.count("cache_purity_in_place_writes_without_effect", 1),
                }
            }
        }
    }
    // (d) member names over an alphabet that includes e/E-prefixed identifiers
    if args.shard == 0 {
        for name in ["a", "e", "e1", "E", "Ex", "f", "_e", "ee", "x1e", "d2"] {
            let mut st = default_store();
            if let Some(V::Map(m)) = st.get_mut("vm") {
                m.insert(name.to_string(), V::Int(42));
            }
            let text = format!("vm.{}", name);
            let gd = new_global(&st);
            let real = eval_fresh(&text, &gd);
            ctx.rep.evaluations += 1;
            ctx.rep.count("family_member_names", 1);
            if !matches!(&real, Real::Val(V::Int(42))) {
                ctx.rep.violation(
                    "member-name-starting-with-e",
                    &format!("`{}` (member present, value 42) evaluates to {}", text, real.show()),
                    json!({"kind": "member", "expression": text, "observed": real.show()}),
                );
            }
        }
    }
}

/// self test of the reference evaluator against the hand-computed corpus (parsed by the generator's
/// own chain grouping is not possible from text, so only evaluator-level identities are checked)
pub fn selftest() -> Result<(), String> {
    use Op::*;
    let i = |x: i64| E::Lit(V::Int(x));
    let chain = group_chain(vec![i(10), i(2), i(3)], &[Sub, Sub]);
    let mut s = default_store();
    match eval(&chain, &mut s) {
        Out::Val(V::Int(5)) => {}
        o => return Err(format!("10-2-3 gives {}", show_out(&o))),
    }
    let chain = group_chain(vec![i(1), i(2), i(3)], &[Add, Mul]);
    match eval(&chain, &mut s) {
        Out::Val(V::Int(7)) => {}
        o => return Err(format!("1+2*3 gives {}", show_out(&o))),
    }
    if render(&chain).canonical() != "1 + 2 * 3" {
        return Err(format!("render: {}", render(&chain).canonical()));
    }
    let e = E::Bin(Mul, Box::new(E::Bin(Add, Box::new(i(1)), Box::new(i(2)))), Box::new(i(3)));
    if render(&e).canonical() != "(1 + 2) * 3" {
        return Err(format!("render: {}", render(&e).canonical()));
    }
    let e = E::Bin(Sub, Box::new(i(10)), Box::new(E::Bin(Sub, Box::new(i(2)), Box::new(i(3)))));
    if render(&e).canonical() != "10 - (2 - 3)" {
        return Err(format!("render: {}", render(&e).canonical()));
    }
    Ok(())
}
