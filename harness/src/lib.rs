//! Runtime-monitoring harness for BWeng20/rFSM (see /verif/DESIGN.md).
pub mod rng;
pub mod report;
pub mod phook;
pub mod expr_ref;
pub mod exprrun;
pub mod c10;
pub mod rec;
pub mod docgen;
pub mod refsim;
pub mod session;
pub mod legality;
pub mod structural;
pub mod c01;
pub mod c02;
pub mod monitors;
pub mod corpus;
pub mod c03;
pub mod c06;
pub mod c07;
pub mod c08;
pub mod c19;
pub mod canon;
pub mod faultio;
pub mod sermodels;
pub mod serial;
pub mod c18;
pub mod c05;
pub mod lockmon;
pub mod c11;
pub mod c13;
pub mod c12;
pub mod c09;
pub mod c16;
pub mod c15;
pub mod c14;
pub mod c04;
#[cfg(feature = "full")]
pub mod c20;
pub mod c17;
pub mod replay;
#[cfg(not(miri))]
pub mod cpuwatch;

use report::{Args, Report};

pub fn dispatch(cmd: &str, args: &Args, rep: &mut Report) -> bool {
    match cmd {
        "C10" => c10::run(args, rep),
        "C01" => c01::run(args, rep),
        "C02" => c02::run(args, rep),
        "C03" => c03::run(args, rep),
        "C06" => c06::run(args, rep),
        "C07" => c07::run(args, rep),
        "C08" => c08::run(args, rep),
        "C19" => c19::run(args, rep),
        "C18" => c18::run(args, rep),
        "C05" => c05::run(args, rep),
        "C11" => c11::run(args, rep),
        "C13" => c13::run(args, rep),
        "C12" => c12::run(args, rep),
        "C09" => c09::run(args, rep),
        "C16" => c16::run(args, rep),
        "C15" => c15::run(args, rep),
        "C14" => c14::run(args, rep),
        "C04" => c04::run(args, rep),
        #[cfg(feature = "full")]
        "C20" => c20::run(args, rep),
        "C17" => c17::run(args, rep),
        "try" => trycmd(args),
        "probe" => probecmd(args),
        _ => return false,
    }
    true
}

pub fn selftests() -> Vec<(&'static str, Result<(), String>)> {
    vec![("expr_ref", c10::selftest())]
}

/// debugging aid: `rv try --seed N [dm]` prints one generated document with expected / observed trace
fn trycmd(args: &Args) {
    use docgen::*;
    let mut rng = args.rng(0);
    let dm = match args.extra.first().map(|s| s.as_str()) {
        Some("null") => Dm::Null,
        Some("ecma") => Dm::Ecma,
        _ => Dm::Rfsm,
    };
    let o = GenOpts::structural(dm, false);
    let (doc, f, path, exp) = loop {
        let doc = generate(&mut rng, &o, "try");
        let f = refsim::Flat::from_doc(&doc).unwrap();
        let path = structural::guided_path(&f, &structural::alphabet(&o), 8, &mut rng);
        let exp = structural::expected_trace(&f, &path);
        if !exp.diverged && exp.stats.microsteps > 2 {
            break (doc, f, path, exp);
        }
    };
    let xml = doc.to_xml();
    println!("{}", xml);
    println!("path: {:?} diverged={}", path, exp.diverged);
    let out = structural::run_real(&xml, &path);
    println!("status: {:?}", out.res.status);
    let n = exp.lines.len().max(out.observed.len());
    for i in 0..n {
        let e = exp.lines.get(i).cloned().unwrap_or_default();
        let o = out.observed.get(i).cloned().unwrap_or_default();
        println!("{:3} {:40} {:40} {}", i, e, o, if e == o { "" } else { "<<<<" });
    }
    let mut st = Default::default();
    println!("legality: {:?}", legality::check(&f, &out.res, &mut st));
}

/// `rv probe file.xml [--prequeue] e1 e2 …` prints the canonical trace of the real interpreter
fn probecmd(args: &Args) {
    let file = &args.extra[0];
    let xml = std::fs::read_to_string(file).expect("xml file");
    let mut events: Vec<String> = args.extra[1..].to_vec();
    let prequeue = events.first().map(|s| s == "--prequeue").unwrap_or(false);
    if prequeue {
        events.remove(0);
    }
    let out = structural::run_real_mode(&xml, &events, prequeue);
    println!("status: {:?} panicked={}", out.res.status, out.res.session_thread_panicked);
    for l in &out.observed {
        println!("{}", l);
    }
    if std::env::var("RV_RAW").is_ok() {
        for e in &out.res.log {
            println!("{}", e.line());
        }
    }
}
