#!/bin/bash
# Confirms a seeded change: applies on a scratch worktree, builds, runs the pinned tests with the patch.
#   tools/verify_seeded.sh <patch.diff>
set -u
S=${S:-/tmp/mutrun}
mkdir -p $S
if [ ! -d $S/repo ]; then git -C /repo worktree add --detach $S/repo HEAD -q; fi
git -C $S/repo checkout -q --detach $(git -C /repo rev-parse HEAD) 2>/dev/null
git -C $S/repo checkout -q -- . ; git -C $S/repo clean -fdq -e target
git -C $S/repo apply "$1" || { echo PATCH-DOES-NOT-APPLY; exit 3; }
cd $S/repo && CARGO_NET_OFFLINE=true cargo test --workspace --no-fail-fast --offline 2>&1 | grep -E "^test result: .* [1-9][0-9]* passed|FAILED|^error" | head -5
git -C $S/repo checkout -q -- .
