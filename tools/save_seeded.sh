#!/bin/bash
# tools/save_seeded.sh <out-dir of sub-agent> <seeded id> <property> <needs> <caught-by> <ran>
set -eu
OUT="$1"; ID="$2"; PROP="$3"; NEEDS="$4"; CAUGHT="$5"; RAN="$6"
D=/verif/seeded/$ID
mkdir -p $D
cp $OUT/patch.diff $D/patch.diff
for f in $OUT/*.rs $OUT/*.scxml $OUT/README.md; do [ -f "$f" ] && cp "$f" $D/; done
python3 - "$D" "$ID" "$PROP" "$NEEDS" "$CAUGHT" "$RAN" <<'PY'
import json,sys,subprocess
d,i,p,needs,caught,ran=sys.argv[1:7]
head=subprocess.check_output(['git','-C','/repo','rev-parse','HEAD'],text=True).strip()
json.dump({"id":i,"property":p,"base_commit":head,"needs_to_manifest":needs,
 "demonstration":"see README.md; the example program exits 1 with the patch and 0 without (confirmed with tools/confirm_demo.sh in a scratch worktree)",
 "pinned_tests_with_patch":"57 passed (tools/verify_seeded.sh)",
 "caught_by":caught.split(',') if caught else [],"what_i_ran":ran},open(d+'/meta.json','w'),indent=1)
PY
echo saved $D
