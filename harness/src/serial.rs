//! Shared helpers of C05 / C18: writing and reading .rfsm images through the public protocol types.
use crate::faultio::{FaultSink, WriteFault};
use rufsm::fsm::Fsm;
use rufsm::serializer::default_protocol_reader::DefaultProtocolReader;
use rufsm::serializer::default_protocol_writer::DefaultProtocolWriter;
use rufsm::serializer::fsm_reader::FsmReader;
use rufsm::serializer::fsm_writer::FsmWriter;
use std::io::Read;
use std::panic::{catch_unwind, AssertUnwindSafe};

pub struct WriteOutcome {
    pub bytes: Vec<u8>,
    pub has_error: bool,
    pub calls: usize,
    pub faults_injected: usize,
}

/// writes the model through a (possibly faulty) sink; Err = panic
pub fn write_model(fsm: &Fsm, fault: WriteFault) -> Result<WriteOutcome, String> {
    let r = catch_unwind(AssertUnwindSafe(|| {
        let sink = FaultSink::new(fault);
        let pw = DefaultProtocolWriter::new(sink);
        let mut w = FsmWriter::new(Box::new(pw));
        w.write(fsm);
        w.close();
        let has_error = w.writer.has_error();
        let s = w.get_writer();
        WriteOutcome {
            bytes: s.data.clone(),
            has_error,
            calls: s.calls,
            faults_injected: s.faults_injected,
        }
    }));
    r.map_err(crate::exprrun::panic_text)
}

pub enum ReadOutcome {
    Ok(Box<Fsm>),
    Err(String),
    Panic(String),
}

/// runs `f` (which builds a stream and calls `read_model`) in its own thread under a CPU-time budget
pub fn budgeted(f: impl FnOnce() -> ReadOutcome + Send + 'static) -> ReadOutcome {
    #[cfg(miri)]
    {
        return f();
    }
    #[cfg(not(miri))]
    {
        use crate::cpuwatch::{run, Budgeted};
        match run(30.0, f) {
            Budgeted::Done(o) => o,
            Budgeted::Runaway(c) => {
                crate::report::request_stop();
                ReadOutcome::Panic(format!("runaway reader: no result after {:.0} s of CPU time on an image of a few kilobytes @ harness cpu budget", c))
            }
            Budgeted::Unknown(e) => ReadOutcome::Err(format!("harness: {}", e)),
        }
    }
}

/// `read_model` on an owned copy of the bytes, in its own thread under a CPU-time budget: a reader that spins on a
/// corrupted count (without reading, without allocating) ends as `Panic("runaway …")` instead of hanging the shard
pub fn read_model_budgeted(bytes: Vec<u8>, window: Option<usize>) -> ReadOutcome {
    #[cfg(miri)]
    {
        return match window {
            Some(w) => read_model(std::io::BufReader::with_capacity(w, &bytes[..])),
            None => read_model(&bytes[..]),
        };
    }
    #[cfg(not(miri))]
    {
        use crate::cpuwatch::{run, Budgeted};
        let r = run(30.0, move || match window {
            Some(w) => read_model(std::io::BufReader::with_capacity(w, &bytes[..])),
            None => read_model(&bytes[..]),
        });
        match r {
            Budgeted::Done(o) => o,
            Budgeted::Runaway(c) => {
                crate::report::request_stop();
                ReadOutcome::Panic(format!("runaway reader: no result after {:.0} s of CPU time on an image of a few kilobytes @ harness cpu budget", c))
            }
            Budgeted::Unknown(e) => ReadOutcome::Err(format!("harness: {}", e)),
        }
    }
}

/// Stops a reader that keeps asking for bytes long after the stream has ended (a loop over a corrupted count).
struct GuardedReader<R: Read> {
    inner: R,
    reads_after_eof: u64,
}

impl<R: Read> Read for GuardedReader<R> {
    fn read(&mut self, buf: &mut [u8]) -> std::io::Result<usize> {
        let n = self.inner.read(buf)?;
        if n == 0 && !buf.is_empty() {
            self.reads_after_eof += 1;
            if self.reads_after_eof > 100_000 {
                panic!("runaway reader: 100000 read() calls after the end of the stream @ harness guard");
            }
        }
        Ok(n)
    }
}

pub fn read_model<R: Read>(r: R) -> ReadOutcome {
    let res = catch_unwind(AssertUnwindSafe(|| {
        let r = GuardedReader { inner: r, reads_after_eof: 0 };
        let pr = DefaultProtocolReader::new(r);
        let mut fr = FsmReader::new(Box::new(pr));
        fr.read()
    }));
    match res {
        Ok(Ok(f)) => ReadOutcome::Ok(f),
        Ok(Err(e)) => ReadOutcome::Err(e),
        Err(p) => ReadOutcome::Panic(crate::exprrun::panic_text(p)),
    }
}
