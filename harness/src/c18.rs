//! C18 – partial or failed .rfsm I/O is reported, never silently accepted.
use crate::canon::{diff, dump, CanonOpts};
use crate::faultio::{ChunkReader, WriteFault};
use crate::report::{Args, Report};
use crate::serial::*;
use crate::session::parse_xml;
use serde_json::json;

fn hex(b: &[u8]) -> String {
    b.iter().map(|x| format!("{:02x}", x)).collect()
}

/// classify where a cut falls (for the non-triviality rule): inside a multi-byte item?
fn cut_inside_multibyte(bytes: &[u8], cut: usize) -> bool {
    // walk the item structure is format knowledge we do not want to duplicate; approximate from the
    // type nibble of the last item start before the cut: a cut right after a length/type byte of a
    // string or multi-byte integer is "inside" – we detect it by re-reading prefixes: if the
    // prefix of length cut-1 also fails differently… keep it simple and conservative:
    if cut == 0 || cut >= bytes.len() {
        return false;
    }
    let prev = bytes[cut - 1];
    // previous byte opens a string (0xC0/0xD0) with non-zero length or a multi-byte integer (0x40..0xB0)
    matches!(prev & 0xF0, 0x40..=0xB0) || ((prev & 0xF0 == 0xC0 || prev & 0xF0 == 0xD0) && (prev & 0x0F) != 0)
}

pub fn run(args: &Args, rep: &mut Report) {
    let mut rng = args.rng(18);
    let mut models: Vec<(String, String)> = Vec::new();
    if args.shard == 0 || args.miri() {
        // (inside the Miri interpreter: one seed-dependent feature document per process, cuts and fault positions sampled)
        models.extend(crate::sermodels::feature_docs().into_iter().enumerate().filter(|(i, _)| args.keep(*i + args.shard, 6)).map(|(_, m)| m));
    }
    let n = args.scale(3, 60);
    for (name, d) in crate::sermodels::generated(&mut rng, n, args.thorough()) {
        models.push((name, d.to_xml()));
    }
    rep.exhaustive = Some(!args.miri());
    rep.notes.push("per image every prefix length 0..n-1 and every position of a failing / short / interrupted write call is enumerated (exhaustive per image); the images themselves are a sample".to_string());
    for (name, xml) in &models {
        if crate::report::should_stop() {
            break;
        }
        let fsm = match parse_xml(xml) {
            Ok(f) => f,
            Err(e) => {
                rep.notes.push(format!("model {} not parsed: {}", name, e));
                continue;
            }
        };
        let reference = match write_model(&fsm, WriteFault::None) {
            Ok(w) if !w.has_error => w,
            Ok(_) => {
                rep.violation("writer-error-on-healthy-sink", "the writer reported an error although the sink never failed", json!({"model": name, "xml": xml}));
                continue;
            }
            Err(p) => {
                rep.violation(&format!("writer-panic:{}", p.rsplit(" @ ").next().unwrap_or("?")), &format!("writing model {} panicked: {}", name, p), json!({"model": name, "xml": xml}));
                continue;
            }
        };
        let image = &reference.bytes;
        rep.count("images", 1);
        rep.count("image_bytes", image.len() as u64);
        let want = dump(&fsm, &CanonOpts { for_roundtrip: true });
        // complete image, short reads: must still read and be equal
        for chunk in [1usize, 2, 7, 4096] {
            rep.evaluations += 1;
            let data = image.clone();
            let vary = if chunk == 7 { Some(rng.fork()) } else { None };
            match crate::serial::budgeted(move || read_model(ChunkReader { data: &data, pos: 0, chunk, vary })) {
                ReadOutcome::Ok(f2) => {
                    let got = dump(&f2, &CanonOpts { for_roundtrip: true });
                    if let Some(dd) = diff(&want, &got, "model") {
                        rep.violation(
                            "complete-image-short-reads-differs",
                            &format!("complete image read in chunks of {} bytes differs: {}", chunk, dd),
                            json!({"model": name, "xml": xml, "chunk": chunk, "diff": dd}),
                        );
                    }
                    rep.count("complete_images_read_in_chunks", 1);
                }
                ReadOutcome::Err(e) => rep.violation(
                    "complete-image-rejected-with-short-reads",
                    &format!("complete image rejected when the stream returns {} bytes per read: {}", chunk, e),
                    json!({"model": name, "xml": xml, "chunk": chunk}),
                ),
                ReadOutcome::Panic(p) => rep.violation(
                    &format!("reader-panic:{}", p.rsplit(" @ ").next().unwrap_or("?")),
                    &format!("reading the complete image in chunks panicked: {}", p),
                    json!({"model": name, "xml": xml, "chunk": chunk}),
                ),
            }
        }
        // crash points: every strict prefix
        let mut ok_accepted: Vec<usize> = Vec::new();
        let mut panics: Vec<(usize, String)> = Vec::new();
        for cut in 0..image.len() {
            if !args.keep(cut, 5) || crate::report::should_stop() {
                continue;
            }
            rep.evaluations += 1;
            if cut % 16 == 0 {
                crate::report::progress(
                    "process-death:reading-a-truncated-image",
                    &format!("the process died while a strict prefix (about {} of {} bytes) of the image of model {} was read", cut, image.len(), name),
                    &json!({"model": name, "xml": xml, "prefix_about": cut}),
                );
            }
            let prefix = image[..cut].to_vec();
            match crate::serial::budgeted(move || read_model(&prefix[..])) {
                ReadOutcome::Err(_) => {
                    rep.count("prefixes_rejected", 1);
                }
                ReadOutcome::Ok(_) => ok_accepted.push(cut),
                ReadOutcome::Panic(p) => panics.push((cut, p)),
            }
            if cut_inside_multibyte(image, cut) {
                rep.nontrivial_key(&format!("{}:{}", name, cut));
            }
        }
        rep.count("prefixes_tried", (0..image.len()).filter(|c| args.keep(*c, 5)).count() as u64);
        if !ok_accepted.is_empty() {
            let c = ok_accepted[ok_accepted.len() / 2];
            rep.violation(
                "truncated-image-accepted",
                &format!(
                    "{} of {} strict prefixes of the image of model {} are read as Ok (e.g. the first {} bytes)",
                    ok_accepted.len(),
                    image.len(),
                    name,
                    c
                ),
                json!({"model": name, "xml": xml, "image_hex": hex(image), "accepted_prefix_lengths_sample": ok_accepted.iter().take(20).collect::<Vec<_>>(), "count": ok_accepted.len()}),
            );
        }
        if !panics.is_empty() {
            let (c, p) = &panics[0];
            rep.violation(
                &format!("truncated-image-panic:{}", p.rsplit(" @ ").next().unwrap_or("?")),
                &format!("{} strict prefixes make the reader panic (e.g. the first {} bytes: {})", panics.len(), c, p),
                json!({"model": name, "xml": xml, "image_hex": hex(image), "prefix": c, "panic": p}),
            );
        }
        // write faults at every call position
        let k = reference.calls;
        rep.count("write_calls_per_image_total", k as u64);
        for i in 0..k {
            if !args.keep(i, 7) {
                continue;
            }
            let faults = [
                WriteFault::FailAt(i),
                WriteFault::InterruptAt(i),
                WriteFault::ShortFrom(i, 1),
                WriteFault::ShortFrom(i, [2usize, 3, 7][i % 3]),
            ];
            for fault in faults {
                rep.evaluations += 1;
                let out = match write_model(&fsm, fault) {
                    Ok(o) => o,
                    Err(p) => {
                        rep.violation(
                            &format!("writer-panic:{}", p.rsplit(" @ ").next().unwrap_or("?")),
                            &format!("writing with {:?} panicked: {}", fault, p),
                            json!({"model": name, "xml": xml, "fault": format!("{:?}", fault)}),
                        );
                        continue;
                    }
                };
                if out.faults_injected == 0 {
                    rep.count("write_faults_not_reached", 1);
                    continue;
                }
                rep.count("write_faults_injected", 1);
                match fault {
                    WriteFault::FailAt(_) => {
                        if !out.has_error {
                            rep.violation(
                                "failed-write-not-reported",
                                &format!("write call #{} failed but has_error() is false afterwards", i),
                                json!({"model": name, "xml": xml, "fault": format!("{:?}", fault)}),
                            );
                        }
                    }
                    WriteFault::ShortFrom(_, c) => {
                        if !out.has_error && out.bytes != *image {
                            rep.violation(
                                "short-write-loses-bytes",
                                &format!(
                                    "the sink accepted only {} bytes per call from call #{} on: the writer reports no error but emitted {} of {} bytes",
                                    c,
                                    i,
                                    out.bytes.len(),
                                    image.len()
                                ),
                                json!({"model": name, "xml": xml, "fault": format!("{:?}", fault), "emitted": out.bytes.len(), "expected": image.len()}),
                            );
                        }
                    }
                    WriteFault::InterruptAt(_) => {
                        if !out.has_error && out.bytes != *image {
                            rep.violation(
                                "interrupted-write-loses-bytes",
                                &format!("ErrorKind::Interrupted at call #{}: no error reported but the image differs", i),
                                json!({"model": name, "xml": xml, "fault": format!("{:?}", fault)}),
                            );
                        }
                    }
                    _ => {}
                }
            }
        }
        rep.evaluations += 1;
        match write_model(&fsm, WriteFault::FailFlush) {
            Ok(o) => {
                if !o.has_error {
                    rep.violation("failed-flush-not-reported", "flush failed but has_error() is false afterwards", json!({"model": name, "xml": xml}));
                }
                rep.count("write_faults_injected", 1);
            }
            Err(p) => rep.violation(&format!("writer-panic:{}", p.rsplit(" @ ").next().unwrap_or("?")), &format!("failing flush panicked: {}", p), json!({"model": name})),
        }
        if rep.samples.len() < rep.max_samples {
            rep.sample(json!({"model": name, "image_bytes": image.len(), "write_calls": k, "image_hex_head": hex(&image[..image.len().min(48)])}));
        }
    }
}
