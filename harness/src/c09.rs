//! C09 – In(), system variables and data binding behave as SCXML specifies.
use crate::docgen::*;
use crate::expr_ref::V;
use crate::rec::{self, Ev, Wait};
use crate::report::{Args, Report};
use crate::session::{parse_xml, Case, Running};
use crate::structural::*;
use rufsm::datamodel::Data;
use rufsm::fsm::{Event, EventType, ParamPair};
use serde_json::json;
use std::collections::HashMap;
use std::time::Duration;

fn add_in_probes(doc: &mut Doc) {
    let states: Vec<String> = doc.all_nodes().iter().skip(1).filter(|n| !n.is_history()).map(|n| n.id.clone()).collect();
    let probe = Stmt::InProbe(states.clone());
    let ins = |b: &mut Block| {
        let at = if b.is_empty() { 0 } else { 1 };
        b.insert(at, probe.clone());
    };
    doc.root.walk_mut(&mut |n| {
        for b in n.onentry.iter_mut() {
            ins(b);
        }
        for b in n.onexit.iter_mut() {
            ins(b);
        }
        if let Some(i) = &mut n.initial {
            if i.as_element {
                ins(&mut i.body);
            }
        }
        let is_hist = n.is_history();
        for t in n.trans.iter_mut() {
            ins(&mut t.body);
            if !is_hist {
                let inner = std::mem::replace(&mut t.cond, Cond::True);
                t.cond = Cond::Probed(states.clone(), Box::new(inner));
            }
        }
    });
}

#[derive(Default)]
struct InStats {
    probes: u64,
    values: u64,
    mixed_mid_step: u64,
    in_guards: u64,
    shadow_checked: u64,
}

/// every `in` mark: each reported In(x) equals membership of x in the configuration at that call
fn check_in_probes(log: &[crate::rec::Entry], names: &HashMap<u32, String>, session: u32, tracer: u32, top_finals: &[String], st: &mut InStats) -> Result<(), (String, String)> {
    let mut in_select = false;
    let mut in_micro = false;
    // Shadow configuration, independent of the interpreter's own set: a state is a member from its
    // entry until its onexit content has completed (W3C exitStates removes it after the handlers), i.e.
    // until the next state's exit begins or exitStates / exitInterpreter returns.
    let mut shadow: std::collections::BTreeSet<u32> = std::collections::BTreeSet::new();
    let mut leaving: Option<u32> = None;
    // exitInterpreter is not traced: the shadow is not maintained once termination has begun
    let mut terminating = false;
    for e in log {
        if e.tracer == tracer {
            match &e.ev {
                Ev::Enter(id, n) => {
                    shadow.insert(*id);
                    if top_finals.iter().any(|f| f == n) {
                        terminating = true;
                    }
                }
                Ev::XRecv(ev) if ev.name == crate::refsim::CANCEL => terminating = true,
                Ev::Exit(id, _) => {
                    if let Some(p) = leaving.take() {
                        shadow.remove(&p);
                    }
                    leaving = Some(*id);
                }
                Ev::MOut(m) if m == "exitStates" || m == "exitInterpreter" => {
                    if let Some(p) = leaving.take() {
                        shadow.remove(&p);
                    }
                }
                _ => {}
            }
        }
        match &e.ev {
            Ev::MIn(m) if m == "selectTransitions" || m == "selectEventlessTransitions" => in_select = true,
            Ev::MOut(m) if m == "selectTransitions" || m == "selectEventlessTransitions" => in_select = false,
            Ev::MIn(m) if m == "microstep" => in_micro = true,
            Ev::MOut(m) if m == "microstep" => in_micro = false,
            Ev::Mark { tag, args, config, session: s, .. } if tag == "in" && *s == session => {
                st.probes += 1;
                if in_select {
                    st.in_guards += 1;
                }
                let active: Vec<&String> = config.iter().filter_map(|i| names.get(i)).collect();
                let mut t = 0;
                let mut f = 0;
                for pair in args.chunks(2) {
                    if let [V::Str(name), val] = pair {
                        let reported = match val {
                            V::Bool(b) => *b,
                            other => {
                                return Err(("in-not-boolean".into(), format!("In('{}') evaluated to {}", name, other.show())));
                            }
                        };
                        st.values += 1;
                        let is = active.iter().any(|a| *a == name);
                        if reported {
                            t += 1;
                        } else {
                            f += 1;
                        }
                        if reported != is {
                            return Err((
                                if in_select { "in-wrong-in-guard" } else if in_micro { "in-wrong-mid-microstep" } else { "in-wrong" }.to_string(),
                                format!("In('{}') returned {} while the configuration at that moment was {:?}", name, reported, active),
                            ));
                        }
                        let shadow_is = shadow.iter().any(|i| names.get(i).map(|n| n == name).unwrap_or(false));
                        if terminating {
                            continue;
                        }
                        if reported != shadow_is {
                            let sh: Vec<&String> = shadow.iter().filter_map(|i| names.get(i)).collect();
                            return Err((
                                "in-disagrees-with-entered-and-exited-states".to_string(),
                                format!("In('{}') returned {} but the states entered and not yet exited at that moment are {:?}", name, reported, sh),
                            ));
                        }
                        st.shadow_checked += 1;
                    }
                }
                if in_micro && t > 0 && f > 0 {
                    st.mixed_mid_step += 1;
                }
            }
            _ => {}
        }
    }
    Ok(())
}

fn blank(v: &V) -> bool {
    matches!(v, V::Null | V::NoneV) || matches!(v, V::Str(s) if s.is_empty())
}

fn v_eq_loose(a: &V, b: &V) -> bool {
    match (a, b) {
        (V::Int(x), V::Dbl(y)) | (V::Dbl(y), V::Int(x)) => (*x as f64) == *y,
        (V::Map(x), V::Map(y)) => x.len() == y.len() && x.iter().all(|(k, v)| y.get(k).map(|w| v_eq_loose(v, w)).unwrap_or(false)),
        (V::Arr(x), V::Arr(y)) => x.len() == y.len() && x.iter().zip(y.iter()).all(|(p, q)| v_eq_loose(p, q)),
        _ => a.same(b) || (blank(a) && blank(b)),
    }
}

const EV_PROBE: &str = "mark('ev', _event.name, _event.type, _event.sendid, _event.origin, _event.origintype, _event.invokeid, _event.data)";

fn event_doc(dm: &str, partner: u32) -> String {
    format!(
        r##"<scxml xmlns="http://www.w3.org/2005/07/scxml" version="1.0" name="evdoc" datamodel="{dm}" initial="a">
 <datamodel><data id="v" expr="7"/><data id="partner" expr="{partner}"/></datamodel>
 <state id="a">
  <transition event="do.raise"><raise event="int.raised"/></transition>
  <transition event="do.sendinternal"><send id="sid-int" event="int.sent" target="#_internal"><param name="k" expr="v"/></send></transition>
  <transition event="do.sendself"><send id="sid-self" event="ext.self"><param name="k" expr="v + 1"/><param name="s" expr="'txt'"/></send></transition>
  <transition event="do.sendcontent"><send id="sid-c" event="ext.content"><content>plain text</content></send></transition>
  <transition event="do.sendother"><send id="sid-o" event="ext.other" targetexpr="'#_scxml_' + partner"><param name="n" expr="v"/></send></transition>
  <transition event="do.error"><assign location="nosuch_location" expr="1"/></transition>
  <transition event="do.done" target="c"/>
  <transition event="*"><script>{probe}</script></transition>
 </state>
 <state id="c"><state id="c1"><transition event="fin" target="cf"/><transition event="*"><script>{probe}</script></transition></state>
   <final id="cf"><donedata><param name="d" expr="v"/></donedata></final>
   <transition event="done.state.c" target="a"><script>{probe}</script></transition>
 </state>
</scxml>"##,
        dm = dm,
        partner = partner,
        probe = EV_PROBE.replace('\'', "&apos;").replace("&apos;", "'")
    )
}

struct Exp {
    name: &'static str,
    etype: Option<&'static str>,
    sendid: Option<&'static str>,
    origin_scxml_of: Option<u32>,
    data: Option<V>,
}

fn wait_stable(r: &mut Running, n: u64) -> bool {
    rec::wait_idle_stable(r.tracer, n, Duration::from_millis(20), Duration::from_secs(10)) == Wait::Idle
}

fn event_probe(dm: &str, rep: &mut Report) {
    let mut case = Case::new();
    // partner session that just records what it receives
    let partner_xml = format!(
        r##"<scxml xmlns="http://www.w3.org/2005/07/scxml" version="1.0" datamodel="{}" initial="p"><state id="p"><transition event="*"><script>{}</script></transition></state></scxml>"##,
        dm, EV_PROBE
    );
    let mut partner = case.start(parse_xml(&partner_xml).unwrap());
    wait_stable(&mut partner, 0);
    let pid = partner.session.session_id;
    let xml = event_doc(dm, pid);
    let fsm = match parse_xml(&xml) {
        Ok(f) => f,
        Err(e) => {
            rep.inconclusive(&e);
            return;
        }
    };
    let mut r = case.start(fsm);
    wait_stable(&mut r, 0);
    let sid = r.session.session_id;
    let mut m = std::collections::BTreeMap::new();
    m.insert("hp".to_string(), V::Int(5));
    m.insert("hs".to_string(), V::Str("str".into()));
    // host events with every field set
    let host1 = Event {
        name: "host.params".into(),
        etype: EventType::external,
        sendid: Some("host-sendid".into()),
        origin: Some("host-origin".into()),
        origin_type: Some("host-origintype".into()),
        invoke_id: None,
        param_values: Some(vec![ParamPair::new("hp", &Data::Integer(5)), ParamPair::new("hs", &Data::String("str".into()))]),
        content: None,
    };
    let host2 = Event {
        name: "host.content".into(),
        etype: EventType::external,
        sendid: None,
        origin: None,
        origin_type: None,
        invoke_id: None,
        param_values: None,
        content: Some(Data::String("host content".into())),
    };
    let mut sent = 0;
    r.send_event(host1);
    r.send_event(host2);
    sent += 2;
    for e in ["do.raise", "do.sendinternal", "do.sendself", "do.sendcontent", "do.sendother", "do.error", "do.done", "fin", "plain"] {
        r.send(e);
        sent += 1;
    }
    // + ext.self, ext.content arrive on the own external queue
    wait_stable(&mut r, sent + 2);
    wait_stable(&mut partner, 1);
    r.finish();
    partner.finish();
    let log = rec::take_log();
    let scxml_type = "http://www.w3.org/TR/scxml/#SCXMLEventProcessor";
    let mut self_data = std::collections::BTreeMap::new();
    self_data.insert("k".to_string(), V::Int(8));
    self_data.insert("s".to_string(), V::Str("txt".into()));
    let mut int_data = std::collections::BTreeMap::new();
    int_data.insert("k".to_string(), V::Int(7));
    let mut other_data = std::collections::BTreeMap::new();
    other_data.insert("n".to_string(), V::Int(7));
    let mut done_data = std::collections::BTreeMap::new();
    done_data.insert("d".to_string(), V::Int(7));
    let expected: Vec<(u32, Exp)> = vec![
        (sid, Exp { name: "host.params", etype: Some("external"), sendid: Some("host-sendid"), origin_scxml_of: None, data: Some(V::Map(m)) }),
        (sid, Exp { name: "host.content", etype: Some("external"), sendid: None, origin_scxml_of: None, data: Some(V::Str("host content".into())) }),
        (sid, Exp { name: "int.raised", etype: Some("internal"), sendid: None, origin_scxml_of: None, data: None }),
        (sid, Exp { name: "int.sent", etype: Some("internal"), sendid: Some("sid-int"), origin_scxml_of: None, data: Some(V::Map(int_data)) }),
        (sid, Exp { name: "ext.self", etype: Some("external"), sendid: Some("sid-self"), origin_scxml_of: Some(sid), data: Some(V::Map(self_data)) }),
        (sid, Exp { name: "ext.content", etype: Some("external"), sendid: Some("sid-c"), origin_scxml_of: Some(sid), data: Some(V::Str("plain text".into())) }),
        (pid, Exp { name: "ext.other", etype: Some("external"), sendid: Some("sid-o"), origin_scxml_of: Some(sid), data: Some(V::Map(other_data)) }),
        (sid, Exp { name: "error.execution", etype: Some("platform"), sendid: None, origin_scxml_of: None, data: None }),
        (sid, Exp { name: "done.state.c", etype: None, sendid: None, origin_scxml_of: None, data: Some(V::Map(done_data)) }),
        (sid, Exp { name: "plain", etype: Some("external"), sendid: None, origin_scxml_of: None, data: None }),
    ];
    for (sess, ex) in expected {
        rep.evaluations += 1;
        let found = log.iter().find_map(|e| match &e.ev {
            Ev::Mark { tag, args, session, .. } if tag == "ev" && *session == sess && matches!(args.first(), Some(V::Str(n)) if n == ex.name) => Some(args.clone()),
            _ => None,
        });
        let w = json!({"datamodel": dm, "event": ex.name, "xml": xml});
        let args = match found {
            Some(a) => a,
            None => {
                rep.violation(&format!("event-not-observed:{}", ex.name), &format!("[{}] event {} was never seen by the _event probe", dm, ex.name), w);
                continue;
            }
        };
        rep.count(&format!("event_kinds_{}", ex.name.split('.').next().unwrap_or("")), 1);
        rep.nontrivial_key(&format!("ev:{}:{}", dm, ex.name));
        let get = |i: usize| args.get(i).cloned().unwrap_or(V::NoneV);
        if let Some(t) = ex.etype {
            if !v_eq_loose(&get(1), &V::Str(t.into())) {
                rep.violation(&format!("event-field-type:{}", ex.name), &format!("[{}] _event.type of {} is {} instead of {}", dm, ex.name, get(1).show(), t), w.clone());
            }
        }
        let want_sid = ex.sendid.map(|s| V::Str(s.into())).unwrap_or(V::Null);
        if !v_eq_loose(&get(2), &want_sid) {
            rep.violation(&format!("event-field-sendid:{}", ex.name), &format!("[{}] _event.sendid of {} is {} instead of {}", dm, ex.name, get(2).show(), want_sid.show()), w.clone());
        }
        if let Some(o) = ex.origin_scxml_of {
            if !v_eq_loose(&get(3), &V::Str(format!("#_scxml_{}", o))) {
                rep.violation(&format!("event-field-origin:{}", ex.name), &format!("[{}] _event.origin of {} is {}", dm, ex.name, get(3).show()), w.clone());
            }
            if !v_eq_loose(&get(4), &V::Str(scxml_type.into())) {
                rep.violation(&format!("event-field-origintype:{}", ex.name), &format!("[{}] _event.origintype of {} is {}", dm, ex.name, get(4).show()), w.clone());
            }
        } else if ex.name == "host.params" {
            if !v_eq_loose(&get(3), &V::Str("host-origin".into())) || !v_eq_loose(&get(4), &V::Str("host-origintype".into())) {
                rep.violation("event-field-origin:host", &format!("[{}] origin / origintype set by the host arrive as {} / {}", dm, get(3).show(), get(4).show()), w.clone());
            }
        }
        if !blank(&get(5)) {
            rep.violation(&format!("event-field-invokeid:{}", ex.name), &format!("[{}] _event.invokeid of {} is {} (not an invoked child)", dm, ex.name, get(5).show()), w.clone());
        }
        let want_data = ex.data.clone().unwrap_or(V::Null);
        if !v_eq_loose(&get(6), &want_data) {
            rep.violation(&format!("event-field-data:{}", ex.name), &format!("[{}] _event.data of {} is {} instead of {}", dm, ex.name, get(6).show(), want_data.show()), w.clone());
        }
        if rep.samples.len() < rep.max_samples {
            rep.sample(json!({"datamodel": dm, "event": ex.name, "probe": args.iter().map(|a| a.show()).collect::<Vec<_>>()}));
        }
    }
}

/// read-only probes: every attempt must raise error.execution and leave the value intact
fn readonly_probe(dm: &str, rep: &mut Report) {
    readonly_probe_mode(dm, rep, true);
    if dm == "ecmascript" {
        // what a host gets without the option `datamodel:ecma:strict`
        readonly_probe_mode(dm, rep, false);
    }
}

fn readonly_probe_mode(dm: &str, rep: &mut Report, strict: bool) {
    // event shapes: 0 = string content, 1 = params {list:[1,2,3], m:{k:1}, n:5}, 2 = array content [10,20]
    let mut deep: Vec<(&str, String, &str, u8)> = Vec::new();
    for (loc, shape) in [
        ("_event.data.list[1]", 1u8),
        ("_event.data.list[0]", 1),
        ("_event.data.m.k", 1),
        ("_event.data.m['k']", 1),
        ("_event.data.n", 1),
        ("_event.data['n']", 1),
        ("_event.data['list'][2]", 1),
        ("_event['name']", 1),
        ("_event.data[0]", 2),
        ("_event.data[1]", 2),
        ("_ioprocessors.scxml.location", 0),
        ("_ioprocessors['scxml']", 0),
        ("_ioprocessors.scxml", 0),
    ] {
        let var = if loc.starts_with("_io") { "_ioprocessors" } else { "_event" };
        deep.push(("assign-deep", format!(r#"<assign location="{}" expr="99"/>"#, loc), var, shape));
        deep.push(("script-assign-deep", format!("<script>{} = 99</script>", loc), var, shape));
    }
    let attempts: Vec<(&str, String, &str)> = {
        let mut v: Vec<(&str, String, &str)> = Vec::new();
        for var in ["_sessionid", "_name", "_ioprocessors", "_event"] {
            v.push(("assign", format!(r#"<assign location="{}" expr="'hacked'"/>"#, var), var));
            v.push(("script-assign", format!("<script>{} = 'hacked'</script>", var), var));
            if dm == "rfsm-expression" {
                v.push(("script-init", format!("<script>{} ?= 'hacked'</script>", var), var));
            }
            v.push(("foreach-item", format!(r#"<foreach array="[1]" item="{}"></foreach>"#, var), var));
            v.push(("send-idlocation", format!(r#"<send event="x" idlocation="{}"/>"#, var), var));
        }
        for field in ["name", "type", "sendid", "origin", "origintype", "invokeid", "data"] {
            let loc = format!("_event.{}", field);
            v.push(("assign-field", format!(r#"<assign location="{}" expr="'hacked'"/>"#, loc), "_event"));
            v.push(("script-assign-field", format!("<script>{} = 'hacked'</script>", loc), "_event"));
            if dm == "rfsm-expression" {
                v.push(("script-init-field", format!("<script>{} ?= 'hacked'</script>", loc), "_event"));
            }
        }
        v
    };
    let dump = "mark('ro', _sessionid, _name, _event.name, _event.type, _event.sendid, _event.origin, _event.origintype, _event.invokeid, _event.data, _ioprocessors.scxml.location)";
    let all: Vec<(&str, String, &str, u8)> = attempts.into_iter().map(|(k, a, v)| (k, a, v, 0u8)).chain(deep.into_iter()).collect();
    for (kind, attempt, var, shape) in all {
        rep.evaluations += 1;
        let xml = format!(
            r##"<scxml xmlns="http://www.w3.org/2005/07/scxml" version="1.0" name="rodoc" datamodel="{dm}" initial="a">
 <state id="a">
  <transition event="try" target="b">
   <script>{dump}</script>
   {attempt}
  </transition>
  <transition event="error.execution"><script>mark('err')</script></transition>
  <transition event="x"/>
 </state>
 <state id="b">
  <onentry><script>{dump}</script><script>mark('io', {io})</script></onentry>
  <transition event="error.execution"><script>mark('err')</script></transition>
  <transition event="x"/>
 </state>
</scxml>"##,
            dm = dm,
            dump = dump,
            attempt = attempt,
            io = if dm == "ecmascript" { "typeof _ioprocessors" } else { "isDefined(_ioprocessors.scxml.location)" }
        );
        let w = json!({"datamodel": dm, "attempt": attempt, "xml": xml});
        let fsm = match parse_xml(&xml) {
            Ok(f) => f,
            Err(e) => {
                rep.inconclusive(&format!("probe document rejected: {}", e));
                continue;
            }
        };
        let mut case = if strict { Case::new() } else { Case::new_default_mode() };
        let dm_label = if strict { dm.to_string() } else { format!("{} (default mode, option ecma:strict not set)", dm) };
        let dm = dm_label.as_str();
        let kind_label = if strict { kind.to_string() } else { format!("{}:non-strict", kind) };
        let kind = kind_label.as_str();
        let mut r = case.start(fsm);
        wait_stable(&mut r, 0);
        let sid = r.session.session_id;
        let ev = Event {
            name: "try".into(),
            etype: EventType::external,
            sendid: Some("sid".into()),
            origin: Some("org".into()),
            origin_type: Some("ot".into()),
            invoke_id: None,
            param_values: if shape == 1 {
                let arc = rufsm::datamodel::create_data_arc;
                let mut m = std::collections::HashMap::new();
                m.insert("k".to_string(), arc(Data::Integer(1)));
                Some(vec![
                    rufsm::fsm::ParamPair::new("list", &Data::Array(vec![arc(Data::Integer(1)), arc(Data::Integer(2)), arc(Data::Integer(3))])),
                    rufsm::fsm::ParamPair::new("m", &Data::Map(m)),
                    rufsm::fsm::ParamPair::new("n", &Data::Integer(5)),
                ])
            } else {
                None
            },
            content: match shape {
                0 => Some(Data::String("payload".into())),
                2 => Some(Data::Array(vec![rufsm::datamodel::create_data_arc(Data::Integer(10)), rufsm::datamodel::create_data_arc(Data::Integer(20))])),
                _ => None,
            },
        };
        r.send_event(ev.clone());
        wait_stable(&mut r, 1);
        r.finish();
        let log = rec::take_log();
        let dumps: Vec<Vec<V>> = log
            .iter()
            .filter_map(|e| match &e.ev {
                Ev::Mark { tag, args, .. } if tag == "ro" => Some(args.clone()),
                _ => None,
            })
            .collect();
        let errs = log.iter().filter(|e| matches!(&e.ev, Ev::Mark { tag, .. } if tag == "err")).count();
        let io_ok = log.iter().any(|e| matches!(&e.ev, Ev::Mark { tag, args, .. } if tag == "io" && (matches!(args.first(), Some(V::Bool(true))) || matches!(args.first(), Some(V::Str(s)) if s == "object"))));
        rep.count(&format!("readonly_attempts_{}", var), 1);
        rep.nontrivial_key(&format!("ro:{}:{}:{}", dm, kind, attempt));
        if dumps.len() != 2 {
            rep.violation(
                &format!("readonly-probe-lost:{}:{}", kind, var),
                &format!("[{}] after `{}` the session no longer reports its system variables ({} of 2 dumps)", dm, attempt, dumps.len()),
                w,
            );
            continue;
        }
        let before = &dumps[0];
        let after = &dumps[1];
        // before: _event.name is "try", after: "check"; everything else must be identical and as set
        let mut changed = Vec::new();
        for (i, fname) in ["_sessionid", "_name", "_event.name", "_event.type", "_event.sendid", "_event.origin", "_event.origintype", "_event.invokeid", "_event.data", "_ioprocessors.scxml.location"].iter().enumerate() {
            let b = &before[i];
            let a = &after[i];
            // the second dump runs in the same microstep (onentry of the target state): same event
            let same = v_eq_loose(a, b);
            if !same {
                changed.push(format!("{}: {} -> {}", fname, b.show(), a.show()));
            }
        }
        if !v_eq_loose(&before[0], &V::Int(sid as i64)) || !v_eq_loose(&before[1], &V::Str("rodoc".into())) {
            changed.push(format!("initial values wrong: _sessionid={} _name={}", before[0].show(), before[1].show()));
        }
        if !io_ok {
            changed.push("_ioprocessors no longer usable".to_string());
        }
        if !changed.is_empty() {
            rep.violation(
                &format!("system-variable-modified:{}:{}", kind, var),
                &format!("[{}] `{}` changed protected values: {}", dm, attempt, changed.join("; ")),
                w.clone(),
            );
        }
        if errs == 0 {
            rep.violation(
                &format!("no-error-on-readonly-write:{}:{}", kind, var),
                &format!("[{}] `{}` did not raise error.execution", dm, attempt),
                w,
            );
        }
    }
}

/// binding probes
fn binding_probe(dm: &str, late: bool, rep: &mut Report) {
    rep.evaluations += 1;
    let d = "mark('data', g, s1v, s2v, s21v)";
    let xml = format!(
        r##"<scxml xmlns="http://www.w3.org/2005/07/scxml" version="1.0" datamodel="{dm}" initial="s1"{binding}>
 <datamodel><data id="g" expr="10"/></datamodel>
 <script>{d}</script>
 <state id="s1">
  <datamodel><data id="s1v" expr="11"/></datamodel>
  <onentry><script>{d}</script></onentry>
  <transition event="next" target="s21"><script>{d}</script></transition>
  <transition event="set"><assign location="s1v" expr="111"/></transition>
 </state>
 <state id="s2">
  <datamodel><data id="s2v" expr="12"/></datamodel>
  <onentry><script>{d}</script></onentry>
  <state id="s21">
   <datamodel><data id="s21v" expr="13"/></datamodel>
   <onentry><script>{d}</script></onentry>
   <transition event="set"><assign location="s21v" expr="113"/><assign location="s2v" expr="112"/></transition>
  </state>
  <transition event="back" target="s1"><script>{d}</script></transition>
 </state>
</scxml>"##,
        dm = dm,
        d = d,
        binding = if late { " binding=\"late\"" } else { "" }
    );
    let w = json!({"datamodel": dm, "binding": if late {"late"} else {"early"}, "xml": xml});
    let fsm = match parse_xml(&xml) {
        Ok(f) => f,
        Err(e) => {
            rep.inconclusive(&e);
            return;
        }
    };
    let mut case = Case::new();
    let mut r = case.start(fsm);
    wait_stable(&mut r, 0);
    for (i, e) in ["set", "next", "set", "back", "next"].iter().enumerate() {
        r.send(e);
        wait_stable(&mut r, i as u64 + 1);
    }
    r.finish();
    let log = rec::take_log();
    let dumps: Vec<Vec<V>> = log
        .iter()
        .filter_map(|e| match &e.ev {
            Ev::Mark { tag, args, .. } if tag == "data" => Some(args.clone()),
            _ => None,
        })
        .collect();
    // marks in order: global script, s1 onentry, [set], next: transition, s2 onentry, s21 onentry, [set], back: transition, s1 onentry, next: transition, s2 onentry, s21 onentry
    let u = V::NoneV;
    let i = |x: i64| V::Int(x);
    let expect: Vec<Vec<V>> = if late {
        vec![
            vec![i(10), u.clone(), u.clone(), u.clone()],
            vec![i(10), i(11), u.clone(), u.clone()],
            vec![i(10), i(111), u.clone(), u.clone()],
            vec![i(10), i(111), i(12), u.clone()],
            vec![i(10), i(111), i(12), i(13)],
            vec![i(10), i(111), i(112), i(113)],
            vec![i(10), i(111), i(112), i(113)],
            vec![i(10), i(111), i(112), i(113)],
            vec![i(10), i(111), i(112), i(113)],
            vec![i(10), i(111), i(112), i(113)],
        ]
    } else {
        vec![
            vec![i(10), i(11), i(12), i(13)],
            vec![i(10), i(11), i(12), i(13)],
            vec![i(10), i(111), i(12), i(13)],
            vec![i(10), i(111), i(12), i(13)],
            vec![i(10), i(111), i(12), i(13)],
            vec![i(10), i(111), i(112), i(113)],
            vec![i(10), i(111), i(112), i(113)],
            vec![i(10), i(111), i(112), i(113)],
            vec![i(10), i(111), i(112), i(113)],
            vec![i(10), i(111), i(112), i(113)],
        ]
    };
    rep.count(if late { "binding_late_runs" } else { "binding_early_runs" }, 1);
    rep.nontrivial_key(&format!("binding:{}:{}", dm, late));
    if dumps.len() != expect.len() {
        rep.violation(
            &format!("binding-probe-count:{}", if late { "late" } else { "early" }),
            &format!("[{} {}] {} data probes observed, {} expected", dm, if late { "late" } else { "early" }, dumps.len(), expect.len()),
            w,
        );
        return;
    }
    let places = ["global script", "s1 onentry (1st)", "transition next", "s2 onentry (1st)", "s21 onentry (1st)", "transition back", "s1 onentry (re-entry)", "transition next (2nd)", "s2 onentry (re-entry)", "s21 onentry (re-entry)"];
    for (k, (got, want)) in dumps.iter().zip(expect.iter()).enumerate() {
        // data of the <scxml> element itself under late binding: the statement speaks of "a state's
        // data"; the root is not a state that gets entered, so `g` is not judged in late mode
        let skip = if late { 1 } else { 0 };
        let ok = got.len() == want.len() && got.iter().zip(want.iter()).skip(skip).all(|(a, b)| v_eq_loose(a, b));
        if !ok {
            rep.violation(
                &format!("data-binding:{}:{}", if late { "late" } else { "early" }, places[k].split(' ').next().unwrap_or("")),
                &format!(
                    "[{} {} binding] at {}: (g, s1v, s2v, s21v) = ({}) expected ({})",
                    dm,
                    if late { "late" } else { "early" },
                    places[k],
                    got.iter().map(|x| x.show()).collect::<Vec<_>>().join(", "),
                    want.iter().map(|x| x.show()).collect::<Vec<_>>().join(", ")
                ),
                w.clone(),
            );
            break;
        }
    }
}

pub fn run(args: &Args, rep: &mut Report) {
    let dms_s: Vec<&str> = if cfg!(feature = "full") { vec!["rfsm-expression", "ecmascript"] } else { vec!["rfsm-expression"] };
    if args.shard == 0 {
        for dm in &dms_s {
            event_probe(dm, rep);
            for late in [false, true] {
                binding_probe(dm, late, rep);
            }
        }
    }
    if args.shard == 1 % args.nshards {
        for dm in &dms_s {
            readonly_probe(dm, rep);
        }
    }
    // In() probes in every body and guard of generated documents
    let dms: Vec<Dm> = if cfg!(feature = "full") { vec![Dm::Rfsm, Dm::Ecma] } else { vec![Dm::Rfsm] };
    let mut rng = args.rng(9);
    let n = args.scale(60, 1200);
    let mut st = InStats::default();
    for d in 0..n {
        let dm = dms[d % dms.len()];
        let mut o = GenOpts::structural(dm, args.thorough());
        o.w_parallel = 4;
        o.w_history = 2;
        o.w_raise = 2;
        o.w_eventless = 1;
        o.max_states = 7;
        let base = generate(&mut rng, &o, &format!("in{}", d));
        let mut doc = base.clone();
        add_in_probes(&mut doc);
        let f = match crate::refsim::Flat::from_doc(&doc) {
            Ok(f) => f,
            Err(_) => continue,
        };
        let alpha = alphabet(&o);
        for _ in 0..3 {
            let len = 2 + rng.below(8);
            let path = guided_path(&f, &alpha, len, &mut rng);
            let exp = expected_trace(&f, &path);
            if exp.diverged {
                continue;
            }
            let xml = doc.to_xml();
            let out = run_real(&xml, &path);
            rep.evaluations += 1;
            if out.res.status != crate::session::RunStatus::Completed {
                rep.inconclusive("run did not complete");
                continue;
            }
            let info = out.res.info.as_ref().unwrap();
            let sid = out
                .res
                .log
                .iter()
                .find_map(|e| match &e.ev {
                    Ev::Mark { session, .. } => Some(*session),
                    _ => None,
                })
                .unwrap_or(0);
            let before = st.mixed_mid_step;
            let top_finals: Vec<String> = doc.root.children.iter().filter(|c| c.kind == Kind::Final).map(|c| c.id.clone()).collect();
            if let Err((k, what)) = check_in_probes(&out.res.log, &info.names, sid, out.res.tracer, &top_finals, &mut st) {
                rep.violation(&k, &format!("[{}] {}", dm.name(), what), witness(&doc, &xml, &path, &exp.lines, &out.observed, json!({})));
                continue;
            }
            if st.mixed_mid_step > before {
                rep.nontrivial_key(&distinct_key(&doc, &path));
            }
            // the probes must not change behaviour: trace still equals the reference
            if let Some((i, e, o2)) = crate::session::first_divergence(&exp.lines, &out.observed) {
                rep.count("reference_divergence_outside_focus", 1);
                let _ = (i, e, o2);
            }
        }
    }
    rep.count("in_probe_calls", st.probes);
    rep.count("in_values_checked", st.values);
    rep.count("in_probes_mid_microstep_mixed", st.mixed_mid_step);
    rep.count("in_probes_in_guards", st.in_guards);
    rep.count("in_values_checked_against_entered_minus_exited", st.shadow_checked);
}
