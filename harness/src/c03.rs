//! C03 – run to completion: internal work finishes before the next external event.
use crate::docgen::*;
use crate::report::{Args, Report};
use crate::structural::*;

pub fn run(args: &Args, rep: &mut Report) {
    let mut w = Workload::new(args, rep, Focus::Rtc);
    let dms: Vec<Dm> = if cfg!(feature = "full") { vec![Dm::Rfsm, Dm::Rfsm, Dm::Ecma] } else { vec![Dm::Rfsm] };
    let tune = |o: &mut GenOpts| {
        o.w_raise = 6;
        o.w_self_send = 3;
        o.w_eventless = 2;
        o.w_final = 2;
        o.w_if = 2;
        o.w_cond = 3;
        o.w_parallel = 3;
    };
    for (mode, salt) in [(false, 31u64), (true, 32u64)] {
        w.prequeue = mode;
        let n = args.scale(120, 1500);
        let mut rng = args.rng(salt);
        // eventless transitions whose guard is changed by targetless transitions / sibling regions
        for d in 0..args.scale(10, 150) {
            if crate::report::should_stop() {
                break;
            }
            let (doc, paths) = crate::corpus::guarded_eventless(&mut rng, d);
            if let Ok(f) = crate::refsim::Flat::from_doc(&doc) {
                for p in &paths {
                    if w.run_one(&doc, &f, p, false) {
                        w.rep.nontrivial_key(&format!("{}:{}", mode, distinct_key(&doc, p)));
                    }
                }
            }
        }
        for d in 0..n {
            if crate::report::should_stop() {
                break;
            }
            let dm = dms[d % dms.len()];
            let mut o = GenOpts::structural(dm, args.thorough());
            tune(&mut o);
            let doc = generate(&mut rng, &o, &format!("q{}", d));
            let f = match crate::refsim::Flat::from_doc(&doc) {
                Ok(f) => f,
                Err(_) => continue,
            };
            let alpha = alphabet(&o);
            for _ in 0..3 {
                let len = 2 + rng.below(if args.thorough() { 20 } else { 9 });
                let path = guided_path(&f, &alpha, len, &mut rng);
                if w.run_one(&doc, &f, &path, false) && w.last_nontrivial {
                    w.rep.nontrivial_key(&format!("{}:{}", mode, distinct_key(&doc, &path)));
                }
            }
        }
    }
    invoke_step_family(&mut w);
    w.flush_legality();
    let q = &w.qstats;
    w.rep.count("idle_points_with_internal_queue_sampled", q.idle_queue_samples);
    w.rep.count("internal_events_raised", q.internal_events_raised);
    w.rep.count("internal_events_consumed", q.internal_events_consumed);
    w.rep.count("external_events_consumed", q.external_events_consumed);
    w.rep.count("self_sent_external_events", q.self_sent_external);
    w.rep.count("max_pending_internal_events", q.max_pending_internal);
}

/// Errors raised by the *invoke step* at the end of a macrostep (an `<invoke>` argument that cannot be evaluated)
/// are internal events like any other: they must be processed before the session takes the next external event.
/// Hand-written documents (the reference interpreter does not model invoke); the oracle is model-free: the
/// internal-queue sample at every external dequeue (Verif_Hooks accessor), plus the order of the probe marks.
fn invoke_step_family(w: &mut Workload) {
    use crate::rec::Ev;
    use crate::session::{run_doc_mode, RunStatus};
    const CHILD: &str = r##"<scxml xmlns="http://www.w3.org/2005/07/scxml" version="1.0" datamodel="null" initial="c"><state id="c"/></scxml>"##;
    let dms: Vec<&str> = if cfg!(feature = "full") { vec!["rfsm-expression", "ecmascript"] } else { vec!["rfsm-expression"] };
    let failing: Vec<(&str, String)> = vec![
        ("param-expr", format!("<invoke><param name=\"p\" expr=\"noSuchVar.f\"/><content>{}</content></invoke>", CHILD)),
        ("param-location", format!("<invoke><param name=\"p\" location=\"noSuchVar\"/><content>{}</content></invoke>", CHILD)),
        ("namelist", format!("<invoke namelist=\"noSuchVar\"><content>{}</content></invoke>", CHILD)),
        ("srcexpr", "<invoke srcexpr=\"noSuchVar.uri\"/>".to_string()),
        ("typeexpr", format!("<invoke typeexpr=\"noSuchVar.t\"><content>{}</content></invoke>", CHILD)),
        ("content-expr", "<invoke><content expr=\"noSuchVar.doc\"/></invoke>".to_string()),
    ];
    let mut idx = 0usize;
    for dm in &dms {
        for (kind, inv) in &failing {
            for shape in ["single", "parallel", "nested"] {
                for prequeue in [false, true] {
                    idx += 1;
                    if !w.args.mine(idx) || w.args.miri() && !w.args.keep(idx / w.args.nshards.max(1), 6) {
                        continue;
                    }
                    let gate = if prequeue { "<script>gate(1)</script>" } else { "" };
                    let body = match shape {
                        "single" => format!(
                            r##"<state id="s0">{inv}
   <transition event="error.execution" target="handled"><script>mark('h')</script></transition>
   <transition event="ext" target="late"><script>mark('x-late')</script></transition></state>"##,
                            inv = inv
                        ),
                        // the failing invoke sits in one region, a working one in the sibling region
                        "parallel" => format!(
                            r##"<parallel id="s0">
   <state id="r1"><invoke id="good"><content>{child}</content></invoke></state>
   <state id="r2" initial="r2a"><state id="r2a">{inv}</state><state id="r2b"/></state>
   <transition event="error.execution" target="handled"><script>mark('h')</script></transition>
   <transition event="ext" target="late"><script>mark('x-late')</script></transition></parallel>"##,
                            inv = inv,
                            child = CHILD
                        ),
                        _ => format!(
                            r##"<state id="s0" initial="s0a"><invoke id="good"><content>{child}</content></invoke>
   <state id="s0a">{inv}</state>
   <transition event="error.execution" target="handled"><script>mark('h')</script></transition>
   <transition event="ext" target="late"><script>mark('x-late')</script></transition></state>"##,
                            inv = inv,
                            child = CHILD
                        ),
                    };
                    let xml = format!(
                        r##"<scxml xmlns="http://www.w3.org/2005/07/scxml" version="1.0" datamodel="{dm}" initial="s0">{gate}
 {body}
 <state id="handled"><transition event="ext" target="ok"><script>mark('x-ok')</script></transition></state>
 <state id="late"/><state id="ok"/>
</scxml>"##,
                        dm = dm,
                        gate = gate,
                        body = body
                    );
                    let path = vec!["ext".to_string()];
                    let res = run_doc_mode(&xml, &path, prequeue);
                    w.rep.evaluations += 1;
                    w.rep.count("invoke_step_error_runs", 1);
                    let wit = |extra: serde_json::Value| serde_json::json!({"xml": xml, "events": path, "prequeued": prequeue, "family": "invoke-step-error", "argument": kind, "shape": shape,
                        "log_tail": tail(&res, 30), "extra": extra});
                    if res.status != RunStatus::Completed {
                        w.rep.inconclusive(&format!("invoke-step family {}/{}: {:?}", kind, shape, res.status));
                        continue;
                    }
                    if let Err((key, what)) = crate::monitors::queue_discipline(&res, &mut w.qstats) {
                        w.rep.violation(&key, &format!("[invoke-step error, {} {} {}] {}", dm, kind, shape, what), wit(serde_json::json!({})));
                        continue;
                    }
                    let marks: Vec<String> = res
                        .log
                        .iter()
                        .filter_map(|e| match &e.ev {
                            Ev::Mark { tag, .. } if tag == "h" || tag.starts_with("x-") => Some(tag.clone()),
                            _ => None,
                        })
                        .collect();
                    let errors = res.log.iter().filter(|e| matches!(&e.ev, Ev::IRecv(ev) if ev.name == "error.execution")).count();
                    if errors > 0 {
                        w.rep.count("invoke_step_errors_raised", 1);
                        w.rep.nontrivial_key(&format!("invoke-step:{}:{}:{}:{}", dm, kind, shape, prequeue));
                        // the error event was raised by the invoke step of the first macrostep: it is handled first
                        if marks != vec!["h".to_string(), "x-ok".to_string()] {
                            w.rep.violation(
                                "invoke-step-error-processed-after-external-event",
                                &format!("[{} {} {}] error.execution raised by the invoke step must be processed before the waiting external event: probe marks {:?}, expected [h, x-ok]", dm, kind, shape, marks),
                                wit(serde_json::json!({"marks": marks})),
                            );
                        }
                    } else {
                        w.rep.count("invoke_step_without_error_event", 1);
                    }
                }
            }
        }
    }
}
