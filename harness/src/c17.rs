//! C17 – concurrent sessions never deadlock on the platform's internal locks.
//! Stress scenarios under the lock observer (level 2): lock-order graph, online wait-for cycles.
use crate::lockmon::{self, short_class};
use crate::rec::{self, Wait};
use crate::report::{Args, Report};
use crate::session::{parse_xml, Case, Running};
use rufsm::fsm::Event;
use serde_json::json;
use std::sync::atomic::{AtomicBool, Ordering};
use std::sync::Arc;
use std::time::{Duration, Instant};

const CHILD_DOC: &str = r##"<scxml xmlns="http://www.w3.org/2005/07/scxml" version="1.0" datamodel="rfsm-expression" initial="c">
      <state id="c"><onentry><send event="child.hello" target="#_parent"/><send event="child.tick" delay="1ms"/></onentry>
        <transition event="child.tick"><send event="child.msg" target="#_parent"/><send event="child.tick" delay="1ms"/></transition>
      </state></scxml>"##;

/// `invoke_src`: the child document is loaded from a file (through the executor's include path) instead of inline content
fn node_doc(next: u32, limit: u32, with_invoke: bool, invoke_src: bool) -> String {
    let invoke_state = if with_invoke {
        format!(
            r##"<state id="inv">
   {inv}
   <transition event="toggle" target="run"/>
   <transition event="timer"><send event="timer" delay="1ms"/><send event="poke" target="#_kid"/></transition>
   <transition event="ping"><send event="pong" targetexpr="_event.origin"/></transition>
  </state>"##,
            inv = if invoke_src { "<invoke id=\"kid\" autoforward=\"false\" type=\"scxml\" src=\"c17child.scxml\"/>".to_string() } else { format!("<invoke id=\"kid\" autoforward=\"false\"><content>{}</content></invoke>", CHILD_DOC) }
        )
    } else {
        String::new()
    };
    format!(
        r##"<scxml xmlns="http://www.w3.org/2005/07/scxml" version="1.0" datamodel="rfsm-expression" initial="idle">
 <datamodel><data id="next" expr="{next}"/><data id="n" expr="0"/></datamodel>
 <state id="idle"><transition event="go" target="run"/></state>
 <state id="run">
  <onentry><send event="timer" delay="1ms"/></onentry>
  <transition event="timer" cond="n &lt; {limit}"><assign location="n" expr="n + 1"/><send event="timer" delay="1ms"/><send event="ping" targetexpr="'#_scxml_' + toString(next)"/><send event="late" delay="2ms" targetexpr="'#_scxml_' + toString(next)"/><send event="poke" target="#_kid"/><send event="poke2" delay="1ms" target="#_kid"/></transition>
  <transition event="timer" target="done"/>
  <transition event="ping"><send event="pong" targetexpr="_event.origin"/></transition>
  {toggle}
 </state>
 {invoke_state}
 <state id="done"><transition event="ping"><send event="pong" targetexpr="_event.origin"/></transition></state>
</scxml>"##,
        next = next,
        limit = limit,
        toggle = if with_invoke { "<transition event=\"toggle\" target=\"inv\"/>" } else { "" },
        invoke_state = invoke_state
    )
}

const SHORT_DOC: &str = r##"<scxml xmlns="http://www.w3.org/2005/07/scxml" version="1.0" datamodel="rfsm-expression" initial="a">
 <state id="a"><onentry><send event="x" delay="1ms"/></onentry><transition event="x" target="f"/><transition event="ping"><send event="pong" targetexpr="_event.origin"/></transition></state><final id="f"/></scxml>"##;

pub struct StressResult {
    pub deadlock: Option<lockmon::Deadlock>,
    pub stuck: bool,
    pub sessions: usize,
    pub note: Option<String>,
}

fn role(name: &str) -> &'static str {
    if name.starts_with("fsm_") {
        "session-thread"
    } else if name.starts_with("host") {
        "host-thread"
    } else if name.starts_with("main") {
        "main-thread"
    } else {
        "timer-thread"
    }
}

pub fn deadlock_key(d: &lockmon::Deadlock) -> String {
    let mut parts: Vec<String> = d.cycle.iter().map(|(_, name, _, class, _)| format!("{} waits for {}", role(name), short_class(class))).collect();
    parts.sort();
    format!("deadlock:{}", parts.join(" + "))
}

/// Waits until `done()`; gives up only after `idle` without any instrumented lock acquisition
/// anywhere in the process (no progress) or after the hard cap.  Returns whether `done()` held.
fn wait_with_progress(mut done: impl FnMut() -> bool, idle: Duration, cap: Duration) -> bool {
    let (idle, cap) = (crate::session::wd(idle), crate::session::wd(cap));
    let t0 = Instant::now();
    let mut last = lockmon::acquisitions();
    let mut last_change = Instant::now();
    loop {
        if done() {
            return true;
        }
        std::thread::sleep(Duration::from_millis(5));
        let now = lockmon::acquisitions();
        if now != last {
            last = now;
            last_change = Instant::now();
        }
        if last_change.elapsed() > idle || t0.elapsed() > cap {
            return done();
        }
    }
}

/// one stress scenario; `topology`: number of ring nodes; returns when done or when a deadlock was seen
pub fn stress(nodes: usize, limit: u32, with_invoke: bool, host_starters: usize, jitter: u64, do_shutdown: bool) -> StressResult {
    stress_ext(nodes, limit, with_invoke, host_starters, jitter, do_shutdown, None, None)
}

/// `src_dir`: children are invoked by `src` from a file in that directory; `pause`: (held class, requested class) -
/// a thread that holds a lock of the first class and asks for one of the second is held back for a moment, which
/// steers the execution into a predicted lock-order inversion if it is feasible (a sleep only delays: a wait-for
/// cycle observed afterwards is a deadlock of the real code)
#[allow(clippy::too_many_arguments)]
pub fn stress_ext(nodes: usize, limit: u32, with_invoke: bool, host_starters: usize, jitter: u64, do_shutdown: bool, src_dir: Option<&std::path::Path>, pause: Option<(&str, &str)>) -> StressResult {
    lockmon::reset();
    lockmon::set_level(2);
    lockmon::set_jitter(jitter);
    lockmon::set_pause_plan(pause.map(|(a, b)| (a.to_string(), b.to_string())));
    let mut case = Case::new();
    if let Some(d) = src_dir {
        let _ = std::fs::create_dir_all(d);
        let _ = std::fs::write(d.join("c17child.scxml"), CHILD_DOC);
        case.executor.set_include_paths(&vec![d.to_path_buf()]);
    }
    // learn the next session id
    let probe = match parse_xml(SHORT_DOC) {
        Ok(f) => case.start(f),
        Err(e) => return StressResult { deadlock: None, stuck: false, sessions: 0, note: Some(e) },
    };
    let base = probe.session.session_id + 1;
    let mut running: Vec<Running> = vec![probe];
    for i in 0..nodes {
        let next = base + ((i + 1) % nodes) as u32;
        let xml = node_doc(next, limit, with_invoke && i % 2 == 0, src_dir.is_some());
        match parse_xml(&xml) {
            Ok(f) => {
                let r = case.start(f);
                if r.session.session_id != base + i as u32 {
                    return StressResult { deadlock: None, stuck: false, sessions: 0, note: Some("session ids not sequential".into()) };
                }
                running.push(r);
            }
            Err(e) => return StressResult { deadlock: None, stuck: false, sessions: 0, note: Some(e) },
        }
    }
    let stop = Arc::new(AtomicBool::new(false));
    // host threads: start short sessions, send events to the ring, toggle invoking states
    let mut hosts = Vec::new();
    for h in 0..host_starters {
        let ex = case.executor.clone();
        let actions = case.actions.get_copy();
        let stop2 = stop.clone();
        let n_nodes = nodes as u32;
        hosts.push(
            std::thread::Builder::new()
                .name(format!("host_{}", h))
                .spawn(move || {
                    let mut k = 0u32;
                    while !stop2.load(Ordering::Relaxed) {
                        k += 1;
                        if let Ok(f) = parse_xml(SHORT_DOC) {
                            let _s = rufsm::fsm::start_fsm(f, actions.get_copy(), Box::new(ex.clone()));
                        }
                        let _ = ex.send_to_session(base + (k % n_nodes), Event::new_simple(if k % 3 == 0 { "toggle" } else { "ping.host" }));
                        std::thread::sleep(Duration::from_micros(300));
                    }
                })
                .unwrap(),
        );
    }
    for r in running.iter().skip(1) {
        r.send("go");
    }
    // watch
    // (inside the Miri interpreter the same scenario needs minutes; the loop also ends when every ring session ended)
    let deadline = Instant::now() + if cfg!(miri) { Duration::from_secs(90) } else { Duration::from_millis(400 + (limit as u64) * 4) };
    let mut deadlock = None;
    let mut stuck = false;
    loop {
        std::thread::sleep(Duration::from_millis(10));
        let snap = lockmon::snapshot();
        if let Some(d) = snap.deadlocks.first() {
            deadlock = Some(d.clone());
            break;
        }
        if Instant::now() > deadline {
            break;
        }
    }
    stop.store(true, Ordering::SeqCst);
    if deadlock.is_none() {
        if do_shutdown {
            let mut ex = case.executor.clone();
            // shutdown from a helper thread: it may itself take part in a cycle
            let h = std::thread::Builder::new().name("host_shutdown".into()).spawn(move || ex.shutdown()).unwrap();
            let mut seen = None;
            wait_with_progress(
                || {
                    if let Some(d) = lockmon::snapshot().deadlocks.first() {
                        seen = Some(d.clone());
                        return true;
                    }
                    h.is_finished()
                },
                Duration::from_secs(20),
                Duration::from_secs(240),
            );
            if seen.is_some() {
                deadlock = seen;
            }
        }
    }
    if deadlock.is_none() {
        for h in hosts {
            if !wait_with_progress(|| h.is_finished(), Duration::from_secs(20), Duration::from_secs(240)) {
                stuck = true;
            }
        }
        // bounded progress: every ring session still answers and can be cancelled
        for r in running.iter_mut() {
            if rec::is_finished(r.tracer) {
                continue;
            }
            r.send(crate::refsim::CANCEL);
        }
        for r in running.iter_mut() {
            let tr = r.tracer;
            if !wait_with_progress(|| rec::is_finished(tr), Duration::from_secs(20), Duration::from_secs(240)) {
                stuck = true;
            }
        }
        if let Some(d) = lockmon::snapshot().deadlocks.first() {
            deadlock = Some(d.clone());
        }
    }
    let sessions = running.len();
    lockmon::set_jitter(0);
    lockmon::set_pause_plan(None);
    StressResult { deadlock, stuck, sessions, note: None }
}

pub fn run(args: &Args, rep: &mut Report) {
    let mut rng = args.rng(17);
    let runs = args.scale(4, 40);
    // class pairs of predicted instance-level inversions (both directions): phase 2 tries to steer into them
    let mut predicted: std::collections::BTreeSet<(String, String)> = std::collections::BTreeSet::new();
    for r in 0..runs {
        let mut nodes = *rng.pick(&[2usize, 3, 5, 8]);
        let mut with_invoke = r % 2 == 0;
        let mut hosts = r % 3;
        let mut limit = if args.thorough() { 400 } else { 150 };
        if args.miri() {
            let v = args.seed as usize + args.shard;
            nodes = 2;
            with_invoke = v % 2 == 0;
            hosts = v % 3 % 2;
            limit = 6;
        }
        let jitter = if r % 2 == 1 { rng.next() | 1 } else { 0 };
        let shutdown = r % 4 == 3;
        let src_dir = args.out.join(format!("c17-src-{}", args.shard));
        let by_src = with_invoke && (r / 2) % 2 == 1;
        let res = stress_ext(nodes, limit, with_invoke, hosts, jitter, shutdown, if by_src { Some(src_dir.as_path()) } else { None }, None);
        if by_src {
            rep.count("stress_runs_invoking_by_src_file", 1);
        }
        rep.evaluations += 1;
        if let Some(n) = &res.note {
            rep.inconclusive(n);
            continue;
        }
        let snap = lockmon::snapshot();
        for (k, v) in &snap.class_pair_counts {
            rep.count(&format!("lock_order_edge_{}", k), *v);
            rep.nontrivial_key(&format!("{}:{}", k, r % 4));
        }
        rep.count("lock_acquisitions_observed", snap.edges.iter().map(|e| e.count).sum());
        for (a, b, t) in lockmon::class_level_inversions(&snap) {
            rep.set_add("class_level_order_inversions_seen", &format!("{}<->{} by {:?}", a, b, t));
        }
        let inv = lockmon::instance_level_inversions(&snap);
        rep.count("instance_level_inversions_predicted", inv.len() as u64);
        for (e1, _) in &inv {
            predicted.insert((short_class(e1.from_class).to_string(), short_class(e1.to_class).to_string()));
            predicted.insert((short_class(e1.to_class).to_string(), short_class(e1.from_class).to_string()));
        }
        rep.count("stress_sessions", res.sessions as u64);
        if let Some(d) = &res.deadlock {
            let key = deadlock_key(d);
            let desc: Vec<String> = d
                .cycle
                .iter()
                .map(|(t, name, m, class, owner)| format!("thread t{} ({}) waits for {} #{} held by t{}", t, name, short_class(class), m, owner))
                .collect();
            rep.violation(
                &key,
                &format!("wait-for cycle observed: {}", desc.join("; ")),
                json!({"scenario": {"ring_nodes": nodes, "with_invoke": with_invoke, "host_threads": hosts, "jitter_seed": jitter, "shutdown": shutdown},
                       "cycle": desc,
                       "lock_order_edges": snap.class_pair_counts}),
            );
            // the deadlocked threads cannot be recovered: stop this shard here
            crate::report::request_stop();
            break;
        } else if res.stuck {
            rep.inconclusive("a thread did not finish although no wait-for cycle was seen");
        }
        if rep.samples.len() < rep.max_samples {
            rep.sample(json!({"scenario": {"ring_nodes": nodes, "with_invoke": with_invoke, "host_threads": hosts, "jitter": jitter != 0, "shutdown": shutdown},
                              "lock_order_edges": snap.class_pair_counts}));
        }
    }
    // Phase 2 - confirmation: for every predicted inversion the stress scenario is repeated while threads that hold
    // a lock of the first class and request one of the second are held back for 30 ms (seeded by the shard: one
    // direction per run).  Only an observed wait-for cycle counts; predictions that do not confirm are listed.
    if !crate::report::should_stop() && !args.miri() {
        let mut pairs: Vec<(String, String)> = predicted.iter().cloned().collect();
        if pairs.is_empty() {
            pairs.push(("G".into(), "P".into()));
        }
        let reps = args.scale(1, 3);
        let mut k = 0usize;
        for (a, b) in &pairs {
            for rep_i in 0..reps {
                k += 1;
                if k % 2 != args.shard % 2 && pairs.len() > 1 {
                    continue;
                }
                let src_dir = args.out.join(format!("c17-src-{}", args.shard));
                let by_src = (rep_i + args.shard / 2) % 2 == 0;
                let res = stress_ext(2 + (args.shard % 3), if args.thorough() { 200 } else { 80 }, true, 1, 0, false, if by_src { Some(src_dir.as_path()) } else { None }, Some((a.as_str(), b.as_str())));
                rep.evaluations += 1;
                rep.count("confirmation_runs", 1);
                let snap = lockmon::snapshot();
                rep.count("confirmation_pauses", snap.pauses_done);
                rep.set_add("confirmation_pairs_tried", &format!("hold {} request {}{}", a, b, if by_src { " (invoke by src)" } else { "" }));
                if let Some(n) = &res.note {
                    rep.inconclusive(n);
                    continue;
                }
                if let Some(d) = &res.deadlock {
                    let key = deadlock_key(d);
                    let desc: Vec<String> = d
                        .cycle
                        .iter()
                        .map(|(t, name, m, class, owner)| format!("thread t{} ({}) waits for {} #{} held by t{}", t, name, short_class(class), m, owner))
                        .collect();
                    rep.violation(
                        &key,
                        &format!("wait-for cycle observed (predicted lock-order inversion {}<->{} confirmed by holding back the {}->{} order): {}", a, b, a, b, desc.join("; ")),
                        json!({"scenario": {"phase": "confirmation", "hold": a, "request": b, "invoke_by_src": by_src}, "cycle": desc, "lock_order_edges": snap.class_pair_counts}),
                    );
                    crate::report::request_stop();
                    lockmon::set_level(0);
                    return;
                } else {
                    rep.set_add("predicted_inversions_not_confirmed", &format!("{}<->{}", a.min(b), a.max(b)));
                    if res.stuck {
                        rep.inconclusive("confirmation run: a thread did not finish although no wait-for cycle was seen");
                    }
                }
            }
        }
    }
    lockmon::set_level(0);
}
