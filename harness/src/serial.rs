//! Shared helpers of C05 / C18: writing and reading .rfsm images through the public protocol types.
use crate::faultio::{FaultSink, WriteFault};
use rufsm::fsm::Fsm;
use rufsm::serializer::default_protocol_reader::DefaultProtocolReader;
use rufsm::serializer::default_protocol_writer::DefaultProtocolWriter;
use rufsm::serializer::fsm_reader::FsmReader;
use rufsm::serializer::fsm_writer::FsmWriter;
use std::io::Read;
use std::panic::{catch_unwind, AssertUnwindSafe};

pub struct WriteOutcome {
    pub bytes: Vec<u8>,
    pub has_error: bool,
    pub calls: usize,
    pub faults_injected: usize,
}

/// writes the model through a (possibly faulty) sink; Err = panic
pub fn write_model(fsm: &Fsm, fault: WriteFault) -> Result<WriteOutcome, String> {
    let r = catch_unwind(AssertUnwindSafe(|| {
        let sink = FaultSink::new(fault);
        let pw = DefaultProtocolWriter::new(sink);
        let mut w = FsmWriter::new(Box::new(pw));
        w.write(fsm);
        w.close();
        let has_error = w.writer.has_error();
        let s = w.get_writer();
        WriteOutcome {
            bytes: s.data.clone(),
            has_error,
            calls: s.calls,
            faults_injected: s.faults_injected,
        }
    }));
    r.map_err(crate::exprrun::panic_text)
}

pub enum ReadOutcome {
    Ok(Box<Fsm>),
    Err(String),
    Panic(String),
}

/// Stops a reader that keeps asking for bytes long after the stream has ended (a loop over a corrupted count).
struct GuardedReader<R: Read> {
    inner: R,
    reads_after_eof: u64,
}

impl<R: Read> Read for GuardedReader<R> {
    fn read(&mut self, buf: &mut [u8]) -> std::io::Result<usize> {
        let n = self.inner.read(buf)?;
        if n == 0 && !buf.is_empty() {
            self.reads_after_eof += 1;
            if self.reads_after_eof > 100_000 {
                panic!("runaway reader: 100000 read() calls after the end of the stream @ harness guard");
            }
        }
        Ok(n)
    }
}

pub fn read_model<R: Read>(r: R) -> ReadOutcome {
    let res = catch_unwind(AssertUnwindSafe(|| {
        let r = GuardedReader { inner: r, reads_after_eof: 0 };
        let pr = DefaultProtocolReader::new(r);
        let mut fr = FsmReader::new(Box::new(pr));
        fr.read()
    }));
    match res {
        Ok(Ok(f)) => ReadOutcome::Ok(f),
        Ok(Err(e)) => ReadOutcome::Err(e),
        Err(p) => ReadOutcome::Panic(crate::exprrun::panic_text(p)),
    }
}
