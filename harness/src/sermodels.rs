//! Model corpus for the serializer checks: XML texts covering every persisted element kind.
use crate::docgen::*;
use crate::rng::Rng;

pub fn feature_docs() -> Vec<(String, String)> {
    let mut v = Vec::new();
    let long_script = format!("log('{}')", "x".repeat(300));
    v.push(("send-all-attributes".to_string(), r##"<scxml xmlns="http://www.w3.org/2005/07/scxml" version="1.0" name="sendall" datamodel="rfsm-expression" initial="a">
 <datamodel><data id="v" expr="1"/><data id="w">'text'</data><data id="loc"/></datamodel>
 <state id="a">
  <onentry>
   <send id="sid1" event="ev1" target="#_internal" delay="0s"/>
   <send idlocation="loc" eventexpr="'ev' + v" targetexpr="'#_scxml_' + _sessionid" typeexpr="'scxml'" delayexpr="'10ms'" namelist="v w">
     <param name="p1" expr="v + 1"/><param name="p2" location="w"/>
   </send>
   <send event="ev3" type="http://www.w3.org/TR/scxml/#SCXMLEventProcessor" delay="1.5s"><content>some text content</content></send>
   <send event="ev4"><content expr="v"/></send>
   <cancel sendid="sid1"/><cancel sendidexpr="loc"/>
   <raise event="r.x"/><log label="lbl" expr="v"/><log expr="'no label'"/>
   <assign location="v" expr="v + 1"/><assign location="w">inline text</assign>
  </onentry>
  <transition event="ev1 ev3.* *" cond="v == 2" target="b c1" type="internal"><script>v = v</script></transition>
  <transition target="c"/>
 </state>
 <parallel id="b"><state id="b1"/><state id="b2"><state id="b21"/><final id="b22"><donedata><param name="d" expr="v"/><param name="e" location="w"/></donedata></final></state>
   <history id="bh" type="deep"><transition target="b21"><log expr="'default'"/></transition></history></parallel>
 <state id="c" initial="c1 ">
   <state id="c1"><invoke type="scxml" src="file:child.scxml" id="inv1" autoforward="true" namelist="v"><param name="x" expr="1"/><finalize><assign location="v" expr="_event.data.x"/></finalize></invoke>
     <invoke typeexpr="'scxml'" srcexpr="'child' + '.rfsm'" idlocation="loc"/>
     <invoke><content><scxml xmlns="http://www.w3.org/2005/07/scxml" initial="z"><final id="z"/></scxml></content></invoke>
     <invoke type="http://www.w3.org/TR/scxml/"><content expr="w"/></invoke>
   </state>
   <final id="cf"><donedata><content expr="v"/></donedata></final>
   <final id="cg"><donedata><content>plain</content></donedata></final>
   <history id="ch"><transition target="c1"/></history>
 </state>
 <final id="end"/>
</scxml>"##.to_string()));
    v.push(("nested-if-foreach".to_string(), format!(r##"<scxml xmlns="http://www.w3.org/2005/07/scxml" version="1.0" name="nest" datamodel="ecmascript" binding="late">
 <script>{}</script>
 <state id="s">
  <datamodel><data id="arr" expr="[1,2,3]"/><data id="k" expr="0"/></datamodel>
  <initial><transition target="s2"><log expr="'init'"/></transition></initial>
  <onentry>
   <if cond="k == 0"><log expr="'a'"/><if cond="k &lt; 1"><log expr="'a1'"/><elseif cond="k == 1"/><log expr="'a2'"/></if>
   <elseif cond="k == 1"/><foreach array="arr" item="i" index="ix"><if cond="i == 2"><raise event="two"/><else/><foreach array="arr" item="j"><log expr="j"/></foreach></if></foreach>
   <elseif cond="k == 2"/><log expr="'c'"/>
   <else/><if cond="true"><log expr="'d'"/></if><log expr="'e'"/>
   </if>
  </onentry>
  <onentry><log expr="'second block'"/></onentry>
  <onexit><foreach array="arr" item="i"><assign location="k" expr="k + i"/></foreach></onexit>
  <state id="s1"><transition event="e" target="s2"/></state>
  <state id="s2"><transition event="e" target="s1"><if cond="k &gt; 0"><log expr="k"/></if></transition></state>
 </state>
</scxml>"##, long_script)));
    v.push(("minimal".to_string(), r##"<scxml xmlns="http://www.w3.org/2005/07/scxml"><state id="only"/></scxml>"##.to_string()));
    v.push(("null-model".to_string(), r##"<scxml xmlns="http://www.w3.org/2005/07/scxml" version="1.0" datamodel="null" name="n"><state id="a"><transition event="e" cond="In('a')" target="b"/></state><state id="b"><transition event="e f.g h.*" target="a"/></state></scxml>"##.to_string()));
    v
}

/// generated documents of all families
pub fn generated(rng: &mut Rng, n: usize, thorough: bool) -> Vec<(String, Doc)> {
    let mut v = Vec::new();
    for i in 0..n {
        let dm = [Dm::Null, Dm::Rfsm, Dm::Ecma][i % 3];
        let mut o = GenOpts::structural(dm, thorough);
        o.w_errors = 2;
        o.w_foreach = 3;
        o.w_if = 4;
        o.w_raise = 3;
        o.w_self_send = 2;
        o.w_history = 3;
        o.w_final = 2;
        let mut d = generate(rng, &o, &format!("ser{}", i));
        // every second document carries the optional per-state blocks in random combinations
        // (state-level <datamodel>, <donedata>; every fourth also <invoke>, which keeps it out of
        // the behaviour comparison)
        if i % 2 == 1 {
            decorate(rng, &mut d.root, dm, i % 4 == 3, true);
        }
        v.push((format!("generated-{}-{}", dm.name(), i), d));
    }
    v
}

fn decorate(rng: &mut Rng, n: &mut Node, dm: Dm, invokes: bool, is_root: bool) {
    let kind_final = n.kind == Kind::Final;
    if !n.is_history() && !is_root {
        if !kind_final && dm != Dm::Null && rng.below(3) == 0 {
            let k = 1 + rng.below(3);
            let mut x = String::from("<datamodel>");
            for j in 0..k {
                match rng.below(3) {
                    0 => x.push_str(&format!("<data id=\"sd_{}_{}\" expr=\"{}\"/>", n.id, j, rng.below(100000))),
                    1 => x.push_str(&format!("<data id=\"sd_{}_{}\">'t{}'</data>", n.id, j, rng.below(1000))),
                    _ => x.push_str(&format!("<data id=\"sd_{}_{}\"/>", n.id, j)),
                }
            }
            x.push_str("</datamodel>");
            n.extra_xml.push(x);
        }
        if kind_final && dm != Dm::Null && rng.below(2) == 0 {
            let x = match rng.below(3) {
                0 => format!("<donedata><param name=\"p\" expr=\"{}\"/><param name=\"q{}\" expr=\"'s'\"/></donedata>", rng.below(1000), rng.below(10)),
                1 => format!("<donedata><content>plain text {}</content></donedata>", rng.below(1000)),
                _ => format!("<donedata><content expr=\"{}\"/></donedata>", rng.below(1000)),
            };
            n.extra_xml.push(x);
        }
        if invokes && !kind_final && rng.below(3) == 0 {
            for j in 0..(1 + rng.below(2)) {
                let mut a = String::new();
                match rng.below(3) {
                    0 => a.push_str(&format!(" id=\"inv_{}_{}\"", n.id, j)),
                    1 if dm != Dm::Null => a.push_str(" idlocation=\"v1\""),
                    _ => {}
                }
                match rng.below(3) {
                    0 => a.push_str(" type=\"http://www.w3.org/TR/scxml/\""),
                    1 => a.push_str(" type=\"scxml\""),
                    _ if dm != Dm::Null => a.push_str(" typeexpr=\"'scxml'\""),
                    _ => {}
                }
                if rng.below(2) == 0 {
                    a.push_str(" autoforward=\"true\"");
                }
                if dm != Dm::Null && rng.below(3) == 0 {
                    a.push_str(" namelist=\"v1 v2\"");
                }
                let mut body = String::new();
                match rng.below(4) {
                    0 => a.push_str(&format!(" src=\"file:child{}.scxml\"", rng.below(100))),
                    1 if dm != Dm::Null => a.push_str(" srcexpr=\"'file:child' + 1\""),
                    2 => body.push_str(&format!("<content><scxml xmlns=\"http://www.w3.org/2005/07/scxml\" version=\"1.0\" datamodel=\"{}\"><final id=\"kf{}\"/></scxml></content>", dm.name(), rng.below(100))),
                    _ if dm != Dm::Null => body.push_str("<content expr=\"v1\"/>"),
                    _ => {}
                }
                if dm != Dm::Null && rng.below(2) == 0 {
                    body.push_str(&format!("<param name=\"pa\" expr=\"{}\"/><param name=\"pb\" location=\"v2\"/>", rng.below(1000)));
                }
                if dm != Dm::Null && rng.below(2) == 0 {
                    body.push_str(&format!("<finalize><assign location=\"v1\" expr=\"{}\"/><log expr=\"'fin'\"/></finalize>", rng.below(1000)));
                }
                n.extra_xml.push(format!("<invoke{}>{}</invoke>", a, body));
            }
        }
    }
    for c in n.children.iter_mut() {
        decorate(rng, c, dm, invokes, false);
    }
}
