//! C05 – binary .rfsm round trip preserves the model and its behaviour.
use crate::canon::{diff, dump, CanonOpts};
use crate::expr_ref::V;
use crate::faultio::WriteFault;
use crate::report::{Args, Report};
use crate::serial::*;
use crate::session::{canonical_lines, first_divergence, parse_xml};
use rufsm::datamodel::{Data, SourceCode};
use rufsm::executable_content::{get_executable_content_as, ForEach, If, Script};
use rufsm::fsm::Fsm;
use rufsm::serializer::default_protocol_reader::DefaultProtocolReader;
use rufsm::serializer::default_protocol_writer::DefaultProtocolWriter;
use rufsm::serializer::protocol_reader::ProtocolReader;
use rufsm::serializer::protocol_writer::ProtocolWriter;
use serde_json::json;
use std::collections::HashMap;
use std::panic::{catch_unwind, AssertUnwindSafe};

fn width_class(v: u64) -> String {
    let bits = 64 - v.leading_zeros();
    let w = match bits {
        0..=4 => 4,
        5..=12 => 12,
        13..=20 => 20,
        21..=28 => 28,
        29..=36 => 36,
        37..=44 => 44,
        45..=52 => 52,
        53..=60 => 60,
        _ => 68,
    };
    format!("{}bit", w)
}

fn prim_uint(rep: &mut Report, v: u64) {
    rep.evaluations += 1;
    let r = catch_unwind(AssertUnwindSafe(|| {
        let mut w = DefaultProtocolWriter::new(Vec::<u8>::new());
        w.write_uint(v);
        w.write_uint(5); // a following item shows a wrong width as desynchronisation
        let err = w.has_error();
        let bytes = w.writer.clone();
        let mut rd = DefaultProtocolReader::new(&bytes[..]);
        let a = rd.read_uint();
        let b = rd.read_uint();
        (a, b, err || rd.has_error(), bytes.len())
    }));
    match r {
        Ok((a, b, err, n)) => {
            if n > 2 {
                rep.nontrivial_key(&format!("uint:{}", v));
            }
            if a != v || b != 5 || err {
                rep.violation(
                    &format!("uint-roundtrip:{}", width_class(v)),
                    &format!("write_uint({}) reads back as {} (next item {} instead of 5, error flag {})", v, a, b, err),
                    json!({"primitive": "uint", "value": v.to_string(), "read": a.to_string()}),
                );
            }
        }
        Err(p) => rep.violation(
            &format!("uint-panic:{}", width_class(v)),
            &format!("write_uint/read_uint({}) panicked: {}", v, crate::exprrun::panic_text(p)),
            json!({"primitive": "uint", "value": v.to_string()}),
        ),
    }
}

fn len_class(n: usize) -> &'static str {
    if n < 16 {
        "len<16"
    } else if n < 4096 {
        "len<4096"
    } else {
        "len>=4096"
    }
}

fn prim_str(rep: &mut Report, s: &str, optional: bool) {
    rep.evaluations += 1;
    let r = catch_unwind(AssertUnwindSafe(|| {
        let mut w = DefaultProtocolWriter::new(Vec::<u8>::new());
        if optional {
            w.write_option_string(&Some(s.to_string()));
            w.write_option_string(&None);
        } else {
            w.write_str(s);
        }
        w.write_str("next");
        let err = w.has_error();
        let bytes = w.writer.clone();
        let mut rd = DefaultProtocolReader::new(&bytes[..]);
        let a = if optional {
            let x = rd.read_option_string();
            let y = rd.read_option_string();
            if y.is_some() {
                None
            } else {
                x
            }
        } else {
            Some(rd.read_string())
        };
        let b = rd.read_string();
        (a, b, err || rd.has_error())
    }));
    let multibyte = !s.is_ascii();
    match r {
        Ok((a, b, err)) => {
            if s.len() >= 16 {
                rep.nontrivial_key(&format!("str:{}:{}", s.len(), crate::rng::fnv(s)));
            }
            if a.as_deref() != Some(s) || b != "next" || err {
                rep.violation(
                    &format!("string-roundtrip:{}", len_class(s.len())),
                    &format!(
                        "a string of {} bytes reads back as {} bytes (next item {:?}, error flag {})",
                        s.len(),
                        a.as_ref().map(|x| x.len()).unwrap_or(0),
                        b,
                        err
                    ),
                    json!({"primitive": if optional {"option_string"} else {"string"}, "length": s.len(), "multibyte": multibyte, "head": s.chars().take(20).collect::<String>()}),
                );
            }
        }
        Err(p) => rep.violation(
            &format!("string-panic:{}", len_class(s.len())),
            &format!("writing / reading a string of {} bytes panicked: {}", s.len(), crate::exprrun::panic_text(p)),
            json!({"primitive": "string", "length": s.len(), "multibyte": multibyte}),
        ),
    }
}

fn data_bits_equal(a: &V, b: &V) -> bool {
    match (a, b) {
        (V::Dbl(x), V::Dbl(y)) => x.to_bits() == y.to_bits() || (x.is_nan() && y.is_nan()),
        (V::Arr(x), V::Arr(y)) => x.len() == y.len() && x.iter().zip(y.iter()).all(|(p, q)| data_bits_equal(p, q)),
        (V::Map(x), V::Map(y)) => x.len() == y.len() && x.iter().all(|(k, v)| y.get(k).map(|w| data_bits_equal(v, w)).unwrap_or(false)),
        _ => a.same(b),
    }
}

fn prim_data(rep: &mut Report, d: &Data, what: &str) {
    rep.evaluations += 1;
    let r = catch_unwind(AssertUnwindSafe(|| {
        let mut w = DefaultProtocolWriter::new(Vec::<u8>::new());
        w.write_data(d);
        w.write_uint(77);
        let err = w.has_error();
        let bytes = w.writer.clone();
        let mut rd = DefaultProtocolReader::new(&bytes[..]);
        let a = rd.read_data();
        let b = rd.read_uint();
        (a, b, err || rd.has_error())
    }));
    match r {
        Ok((a, b, err)) => {
            rep.nontrivial_key(&format!("data:{}", what));
            let same = match (d, &a) {
                (Data::Source(x), Data::Source(y)) => x.source == y.source && x.source_id == y.source_id,
                (Data::Error(x), Data::Error(y)) => x == y,
                _ => match (V::from_data(d), V::from_data(&a)) {
                    (Ok(x), Ok(y)) => data_bits_equal(&x, &y) && std::mem::discriminant(d) == std::mem::discriminant(&a),
                    _ => false,
                },
            };
            if !same || b != 77 || err {
                rep.violation(
                    &format!("data-roundtrip:{}", what.split(':').next().unwrap_or(what)),
                    &format!("Data value {} ({}) reads back as {} (next item {}, error {})", d, what, a, b, err),
                    json!({"primitive": "data", "what": what, "written": d.to_string(), "read": a.to_string()}),
                );
            }
        }
        Err(p) => rep.violation(
            &format!("data-panic:{}", what.split(':').next().unwrap_or(what)),
            &format!("Data value {} panicked: {}", what, crate::exprrun::panic_text(p)),
            json!({"primitive": "data", "what": what}),
        ),
    }
}

fn primitives(args: &Args, rep: &mut Report) {
    let mut rng = args.rng(5);
    // unsigned integers: every width boundary
    let mut vals: Vec<u64> = vec![0, u64::MAX];
    for k in 0..64u32 {
        let p = 1u64 << k;
        vals.push(p - 1);
        vals.push(p);
        vals.push(p.wrapping_add(1));
    }
    for _ in 0..args.scale(2000, 100000) {
        let bits = 1 + rng.below(64) as u32;
        vals.push(rng.next() >> (64 - bits));
    }
    for v in vals {
        prim_uint(rep, v);
    }
    // strings of every interesting length, with 1..4 byte characters across the boundary
    let fillers = ["a", "é", "日", "𝄞"];
    let mut lens: Vec<usize> = (0..=40).collect();
    lens.extend(4088..=4102);
    lens.extend([255, 256, 257]);
    if !args.miri() {
        lens.extend([8191, 8192, 8193, 70000]);
    } else {
        // the interpreter is slow on long strings: a seed-dependent quarter of the lengths
        lens = lens.into_iter().enumerate().filter(|(i, _)| args.keep(*i, 4)).map(|(_, l)| l).collect();
    }
    for &n in &lens {
        for (fi, f) in fillers.iter().enumerate() {
            // n bytes total: filler repeated, padded with ascii to hit the exact byte length
            let mut s = String::new();
            while s.len() + f.len() <= n {
                s.push_str(f);
            }
            while s.len() < n {
                s.push('x');
            }
            prim_str(rep, &s, fi % 2 == 1);
            if f.len() > 1 && n > 4 {
                // shift by one byte so that a multi-byte character straddles the 4096 boundary
                let mut t = String::from("y");
                while t.len() + f.len() <= n {
                    t.push_str(f);
                }
                while t.len() < n {
                    t.push('x');
                }
                prim_str(rep, &t, false);
            }
        }
    }
    // Data variants
    use rufsm::datamodel::create_data_arc as arc;
    let ints = [0i64, 1, -1, i64::MAX, i64::MIN, 1 << 40];
    for i in ints {
        prim_data(rep, &Data::Integer(i), &format!("integer:{}", i));
    }
    let dbls = [0.0f64, -0.0, 1.5, -2.25, 1e300, 1e-300, f64::MAX, f64::MIN_POSITIVE, f64::INFINITY, f64::NEG_INFINITY, f64::NAN, 0.1 + 0.2];
    for x in dbls {
        prim_data(rep, &Data::Double(x), &format!("double:{:?}", x));
    }
    for s in ["", "a", "é日𝄞", "with 'quotes' \"both\"", "line\nbreak"] {
        prim_data(rep, &Data::String(s.to_string()), &format!("string:{}", s.len()));
    }
    prim_data(rep, &Data::Boolean(true), "boolean:true");
    prim_data(rep, &Data::Boolean(false), "boolean:false");
    prim_data(rep, &Data::Null(), "null");
    prim_data(rep, &Data::None(), "none");
    prim_data(rep, &Data::Error("boom".into()), "error");
    prim_data(rep, &Data::Source(SourceCode::new("a + b", 17)), "source:small-id");
    prim_data(rep, &Data::Source(SourceCode::new("a + b", 1 << 33)), "source:large-id");
    // nested arrays / maps to depth 5
    let mut nested = Data::Array(vec![arc(Data::Integer(1)), arc(Data::String("x".into()))]);
    for depth in 0..5 {
        let mut m = HashMap::new();
        m.insert(format!("k{}", depth), arc(nested.clone()));
        m.insert("d".to_string(), arc(Data::Double(0.5)));
        nested = Data::Array(vec![arc(Data::Map(m)), arc(Data::Null()), arc(Data::Boolean(depth % 2 == 0))]);
        prim_data(rep, &nested, &format!("nested:depth{}", depth));
    }
    // sequences of mixed primitives
    for _ in 0..args.scale(300, 5000) {
        rep.evaluations += 1;
        let n = 2 + rng.below(12);
        let mut expect: Vec<String> = Vec::new();
        let mut w = DefaultProtocolWriter::new(Vec::<u8>::new());
        let mut kinds = Vec::new();
        for _ in 0..n {
            match rng.below(4) {
                0 => {
                    let bits = 1 + rng.below(59) as u32;
                    let v = rng.next() >> (64 - bits);
                    w.write_uint(v);
                    expect.push(v.to_string());
                    kinds.push(0);
                }
                1 => {
                    let l = rng.below(300);
                    let s: String = (0..l).map(|i| ['a', 'é', '日', 'z'][(i + l) % 4]).collect();
                    w.write_str(&s);
                    expect.push(s);
                    kinds.push(1);
                }
                2 => {
                    let b = rng.chance(1, 2);
                    w.write_boolean(b);
                    expect.push(b.to_string());
                    kinds.push(2);
                }
                _ => {
                    let o = if rng.chance(1, 2) { Some("opt".to_string()) } else { None };
                    w.write_option_string(&o);
                    expect.push(format!("{:?}", o));
                    kinds.push(3);
                }
            }
        }
        let bytes = w.writer.clone();
        let mut rd = DefaultProtocolReader::new(&bytes[..]);
        let mut got: Vec<String> = Vec::new();
        for k in &kinds {
            got.push(match k {
                0 => rd.read_uint().to_string(),
                1 => rd.read_string(),
                2 => rd.read_boolean().to_string(),
                _ => format!("{:?}", rd.read_option_string()),
            });
        }
        if got != expect || rd.has_error() || w.has_error() {
            rep.violation(
                "mixed-sequence-roundtrip",
                "a sequence of mixed primitives does not read back as written",
                json!({"primitive": "sequence", "kinds": kinds, "expected": expect.iter().map(|s| s.chars().take(30).collect::<String>()).collect::<Vec<_>>() }),
            );
        }
        rep.nontrivial_key(&format!("seq:{:?}:{}", kinds, bytes.len()));
    }
    rep.count("primitive_checks", rep.evaluations);
}

/// moves transition ids, content ids and document ids of a model onto the width boundaries
fn shift_ids(fsm: &mut Fsm, off: u32) {
    let tmap: HashMap<u32, u32> = fsm.transitions.keys().map(|k| (*k, k.wrapping_add(off))).collect();
    let cmap: HashMap<u32, u32> = fsm.executableContent.keys().map(|k| (*k, k.wrapping_add(off))).collect();
    let t = |x: u32| if x == 0 { 0 } else { *tmap.get(&x).unwrap_or(&x) };
    let c = |x: u32| if x == 0 { 0 } else { *cmap.get(&x).unwrap_or(&x) };
    for s in &mut fsm.states {
        s.initial = t(s.initial);
        let ids: Vec<u32> = s.transitions.iterator().cloned().collect();
        let mut l = rufsm::fsm::List::new();
        for i in ids {
            l.push(t(i));
        }
        s.transitions = l;
        for x in &mut s.onentry {
            *x = c(*x);
        }
        for x in &mut s.onexit {
            *x = c(*x);
        }
        let mut inv = rufsm::fsm::List::new();
        for i in s.invoke.iterator() {
            let mut j = i.clone();
            j.finalize = c(j.finalize);
            inv.push(j);
        }
        s.invoke = inv;
    }
    fsm.script = c(fsm.script);
    let old_t = std::mem::take(&mut fsm.transitions);
    for (k, mut tr) in old_t {
        tr.id = t(k);
        tr.content = c(tr.content);
        fsm.transitions.insert(tr.id, tr);
    }
    let old_c = std::mem::take(&mut fsm.executableContent);
    for (k, mut items) in old_c {
        for it in items.iter_mut() {
            if let Some(x) = get_executable_content_as::<If>(it.as_mut()) {
                x.content = c(x.content);
                x.else_content = c(x.else_content);
                continue;
            }
            if let Some(x) = get_executable_content_as::<ForEach>(it.as_mut()) {
                x.content = c(x.content);
                continue;
            }
            if let Some(x) = get_executable_content_as::<Script>(it.as_mut()) {
                for y in x.content.iter_mut() {
                    *y = c(*y);
                }
            }
        }
        fsm.executableContent.insert(c(k), items);
    }
}

fn roundtrip_model(rep: &mut Report, name: &str, xml: &str, fsm: &Fsm, variant: &str) -> Option<Box<Fsm>> {
    if crate::report::should_stop() {
        return None;
    }
    rep.evaluations += 1;
    let want = dump(fsm, &CanonOpts { for_roundtrip: true });
    crate::report::progress(
        "process-death:writing-and-reading-back-a-model",
        &format!("the process died while model {} ({}) was written and read back", name, variant),
        &json!({"model": name, "variant": variant, "xml": xml}),
    );
    let img = match write_model(fsm, WriteFault::None) {
        Ok(w) => w,
        Err(p) => {
            rep.violation(
                &format!("model-writer-panic:{}", p.rsplit(" @ ").next().unwrap_or("?")),
                &format!("writing model {} ({}) panicked: {}", name, variant, p),
                json!({"model": name, "variant": variant, "xml": xml}),
            );
            return None;
        }
    };
    match crate::serial::read_model_budgeted(img.bytes.clone(), None) {
        ReadOutcome::Ok(f2) => {
            let got = dump(&f2, &CanonOpts { for_roundtrip: true });
            if let Some(d) = diff(&want, &got, "model") {
                let field = d.split(':').next().unwrap_or("").rsplit('.').next().unwrap_or("").trim_end_matches(|c: char| c == ']' || c.is_ascii_digit() || c == '[').to_string();
                rep.violation(
                    &format!("model-roundtrip-differs:{}:{}", variant, field),
                    &format!("model {} ({}) differs after write + read: {}", name, variant, d),
                    json!({"model": name, "variant": variant, "xml": xml, "diff": d}),
                );
                return None;
            }
            rep.count(&format!("models_roundtripped_{}", variant), 1);
            // the same image through buffered streams, as the platform itself reads .rfsm files (BufReader<File>):
            // `Read::read` may return fewer bytes than asked for wherever the range crosses the buffer end
            let caps: &[usize] = if variant == "plain" { &[5, 61, 509] } else { &[127] };
            for cap in caps {
                if crate::report::should_stop() {
                    break;
                }
                rep.evaluations += 1;
                crate::report::progress(
                    "process-death:reading-a-valid-image-through-a-buffered-stream",
                    &format!("the process died while the complete image of model {} ({}) was read through BufReader({})", name, variant, cap),
                    &json!({"model": name, "variant": variant, "xml": xml, "stream": format!("BufReader({})", cap)}),
                );
                let outcome = crate::serial::read_model_budgeted(img.bytes.clone(), Some(*cap));
                judge_stream_read(rep, outcome, &want, name, variant, xml, &format!("BufReader({})", cap));
            }
            if variant == "plain" && img.bytes.len() > 600 {
                let path = std::env::temp_dir().join(format!("rv-c05-{}-{}.rfsm", std::process::id(), crate::rng::fnv(name) % 1000));
                if std::fs::write(&path, &img.bytes).is_ok() {
                    if let Ok(f) = std::fs::File::open(&path) {
                        rep.evaluations += 1;
                        let outcome = read_model(std::io::BufReader::with_capacity(256, f));
                        judge_stream_read(rep, outcome, &want, name, variant, xml, "BufReader<File>(256)");
                    }
                    let _ = std::fs::remove_file(&path);
                }
            }
            Some(f2)
        }
        ReadOutcome::Err(e) => {
            rep.violation(
                &format!("model-image-rejected:{}", variant),
                &format!("the image of model {} ({}) is rejected by the reader: {}", name, variant, e),
                json!({"model": name, "variant": variant, "xml": xml}),
            );
            None
        }
        ReadOutcome::Panic(p) => {
            rep.violation(
                &format!("model-reader-panic:{}", p.rsplit(" @ ").next().unwrap_or("?")),
                &format!("reading the image of model {} ({}) panicked: {}", name, variant, p),
                json!({"model": name, "variant": variant, "xml": xml}),
            );
            None
        }
    }
}

fn judge_stream_read(rep: &mut Report, outcome: ReadOutcome, want: &serde_json::Value, name: &str, variant: &str, xml: &str, how: &str) {
    let kind = how.split('(').next().unwrap_or(how);
    match outcome {
        ReadOutcome::Ok(f3) => {
            let got = dump(&f3, &CanonOpts { for_roundtrip: true });
            if let Some(d) = diff(want, &got, "model") {
                rep.violation(
                    &format!("model-roundtrip-differs-through-buffered-stream:{}", kind),
                    &format!("model {} ({}) read back through {} differs: {}", name, variant, how, d),
                    json!({"model": name, "variant": variant, "xml": xml, "stream": how, "diff": d}),
                );
            } else {
                rep.count("models_read_back_through_buffered_streams", 1);
            }
        }
        ReadOutcome::Err(e) => rep.violation(
            &format!("model-image-rejected-through-buffered-stream:{}", kind),
            &format!("the image of model {} ({}) reads from memory but is rejected through {}: {}", name, variant, how, e),
            json!({"model": name, "variant": variant, "xml": xml, "stream": how}),
        ),
        ReadOutcome::Panic(p) => rep.violation(
            &format!("model-reader-panic-through-buffered-stream:{}", p.rsplit(" @ ").next().unwrap_or("?")),
            &format!("reading the image of model {} ({}) through {} panicked: {}", name, variant, how, p),
            json!({"model": name, "variant": variant, "xml": xml, "stream": how}),
        ),
    }
}

pub fn run(args: &Args, rep: &mut Report) {
    if args.shard == 0 || (args.miri() && args.shard % 4 == 0) {
        primitives(args, rep);
    }
    let mut rng = args.rng(55);
    // models
    let mut texts: Vec<(String, String, Option<crate::docgen::Doc>)> = Vec::new();
    if args.shard == 1 % args.nshards || args.miri() {
        for (i, (n, x)) in crate::sermodels::feature_docs().into_iter().enumerate() {
            if args.keep(i + args.shard, 6) {
                texts.push((n, x, None));
            }
        }
    }
    for (n, d) in crate::sermodels::generated(&mut rng, args.scale(200, 4000), args.thorough()) {
        texts.push((n, d.to_xml(), Some(d)));
    }
    let mut behaviour_budget = args.scale(35, 700);
    for (name, xml, doc) in &texts {
        if crate::report::should_stop() {
            // a reader ran away (verdict recorded): the abandoned helper thread keeps a core busy, end the shard
            break;
        }
        let fsm = match parse_xml(xml) {
            Ok(f) => f,
            Err(e) => {
                rep.notes.push(format!("model {} not parsed: {}", name, e));
                continue;
            }
        };
        let has = |needle: &str| xml.contains(needle);
        for (feat, needle) in [("history", "<history"), ("state-datamodel", "<data id=\"sd_"), ("invoke", "<invoke"), ("finalize", "<finalize"), ("donedata", "<donedata"), ("foreach", "<foreach"), ("send", "<send"), ("parallel", "<parallel")] {
            if xml.contains(needle) {
                rep.count(&format!("models_with_{}", feat), 1);
            }
        }
        if has("<invoke") || has("<donedata") || (has("<foreach") && has("<elseif")) {
            rep.nontrivial_key(&format!("model:{}", name));
        } else if has("<foreach") || has("<if") {
            rep.nontrivial_key(&format!("model:{}", name));
        }
        let reloaded = roundtrip_model(rep, name, xml, &fsm, "plain");
        // inflated variants: ids on the width boundaries
        for (variant, off) in [("ids+2^12", 1u32 << 12), ("ids+2^20", 1 << 20), ("ids+2^28", 1 << 28), ("ids-near-u32-max", u32::MAX - (1 << 16))] {
            if let Ok(mut f2) = parse_xml(xml) {
                shift_ids(&mut f2, off);
                roundtrip_model(rep, name, xml, &f2, variant);
            }
        }
        // behaviour: the reloaded machine produces the same observable trace
        if let (Some(doc), Some(re)) = (doc, reloaded) {
            if behaviour_budget > 0 && doc.dm != crate::docgen::Dm::Null && !xml.contains("<invoke") {
                behaviour_budget -= 1;
                let f = match crate::refsim::Flat::from_doc(doc) {
                    Ok(f) => f,
                    Err(_) => continue,
                };
                let o = crate::docgen::GenOpts::structural(doc.dm, false);
                let path = crate::structural::guided_path(&f, &crate::structural::alphabet(&o), 8, &mut rng);
                if crate::structural::expected_trace(&f, &path).diverged {
                    continue;
                }
                let run = |m: Box<Fsm>| -> Option<Vec<String>> {
                    let mut case = crate::session::Case::new();
                    let mut r = case.start(m);
                    let mut sent = 0;
                    if r.quiescent(0) == crate::rec::Wait::Timeout {
                        return None;
                    }
                    for e in &path {
                        if crate::rec::is_finished(r.tracer) {
                            break;
                        }
                        r.send(e);
                        sent += 1;
                        if r.quiescent(sent) == crate::rec::Wait::Timeout {
                            return None;
                        }
                    }
                    if !r.finish() {
                        return None;
                    }
                    let res = crate::session::RunResult {
                        status: crate::session::RunStatus::Completed,
                        log: crate::rec::take_log(),
                        tracer: r.tracer,
                        final_configuration: r.final_configuration(),
                        info: Some(r.info),
                        session_thread_panicked: false,
                    };
                    Some(canonical_lines(&res))
                };
                let a = run(fsm);
                let b = run(re);
                rep.evaluations += 1;
                match (a, b) {
                    (Some(a), Some(b)) => {
                        rep.count("behaviour_pairs", 1);
                        if let Some((i, x, y)) = first_divergence(&a, &b) {
                            rep.violation(
                                "reloaded-model-behaves-differently",
                                &format!("trace of the reloaded model differs at line {}: `{}` (from XML) vs `{}` (from .rfsm)", i, x, y),
                                json!({"model": name, "xml": xml, "events": path, "from_xml": a, "from_rfsm": b}),
                            );
                        } else if rep.samples.len() < rep.max_samples {
                            rep.sample(json!({"model": name, "events": path, "trace_lines": a.len(), "trace_head": a.iter().take(12).collect::<Vec<_>>()}));
                        }
                    }
                    _ => rep.inconclusive("behaviour run did not complete"),
                }
            }
        }
    }
    for _ in crate::phook::take_panics() {}
}
