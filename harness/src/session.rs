//! Running one document in the real interpreter under the recording tracer.

use crate::rec::{self, Entry, Ev, Wait};
use crate::refsim::CANCEL;
use rufsm::actions::ActionWrapper;
use rufsm::fsm::{Event, FinishMode, Fsm, ScxmlSession};
use rufsm::fsm_executor::FsmExecutor;
use std::collections::HashMap;
use std::panic::{catch_unwind, AssertUnwindSafe};
use std::time::Duration;

pub struct ModelInfo {
    pub pseudo_root: u32,
    /// state id -> name
    pub names: HashMap<u32, String>,
    /// transition id -> "<state name>.<ordinal>"
    pub trans_uid: HashMap<u32, String>,
}

pub fn model_info(fsm: &Fsm) -> ModelInfo {
    let mut names = HashMap::new();
    let mut trans_uid = HashMap::new();
    for s in &fsm.states {
        names.insert(s.id, s.name.clone());
        for (k, tid) in s.transitions.iterator().enumerate() {
            trans_uid.insert(*tid, format!("{}.{}", s.name, k));
        }
    }
    ModelInfo {
        pseudo_root: fsm.pseudo_root,
        names,
        trans_uid,
    }
}

pub fn parse_xml(xml: &str) -> Result<Box<Fsm>, String> {
    match catch_unwind(AssertUnwindSafe(|| rufsm::scxml_reader::parse_from_xml(xml.to_string()))) {
        Ok(Ok(f)) => Ok(f),
        Ok(Err(e)) => Err(format!("reader error: {}", e)),
        Err(p) => Err(format!("reader panic: {}", crate::exprrun::panic_text(p))),
    }
}

pub struct Running {
    pub session: ScxmlSession,
    pub tracer: u32,
    pub info: ModelInfo,
    pub idles_seen: u64,
}

pub struct Case {
    pub epoch: u64,
    pub actions: ActionWrapper,
    pub executor: FsmExecutor,
}

static ECMA_DEFAULT_MODE: std::sync::atomic::AtomicBool = std::sync::atomic::AtomicBool::new(false);
/// while set, `Case::new` leaves the ECMAScript data model in the platform's default (non-strict) mode
pub fn set_ecma_default_mode(on: bool) {
    ECMA_DEFAULT_MODE.store(on, std::sync::atomic::Ordering::SeqCst);
}

impl Case {
    pub fn new() -> Case {
        let epoch = rec::begin_case();
        let executor = FsmExecutor::new_without_io_processor();
        // the ECMAScript data model is run in its strict mode, like the repository's own W3C test
        // configuration (test/w3c/test_config.json: "datamodel:ecma:strict")
        if !ECMA_DEFAULT_MODE.load(std::sync::atomic::Ordering::SeqCst) {
            executor
                .state
                .lock()
                .unwrap()
                .datamodel_options
                .insert("ecma:strict".to_string(), "".to_string());
        }
        Case {
            epoch,
            actions: rec::make_actions(epoch),
            executor,
        }
    }

    /// starts a root session from a parsed model; the session is held at its start latch until
    /// the tracer knows the session's global data
    pub fn start(&mut self, mut fsm: Box<Fsm>) -> Running {
        let info = model_info(&fsm);
        let tracer = rec::RecTracer::new(true);
        let tid = tracer.id;
        fsm.tracer = Box::new(tracer);
        let session = rufsm::fsm::start_fsm_with_data_and_finish_mode(
            fsm,
            self.actions.get_copy(),
            Box::new(self.executor.clone()),
            &[],
            FinishMode::KEEP_CONFIGURATION,
        );
        rec::register_global(tid, session.global_data.clone());
        rec::release_latch(tid);
        Running {
            session,
            tracer: tid,
            info,
            idles_seen: 0,
        }
    }
}

impl Case {
    /// like `new`, but the ECMAScript data model runs in the platform's default (non-strict) mode
    pub fn new_default_mode() -> Case {
        let c = Case::new();
        c.executor.state.lock().unwrap().datamodel_options.remove("ecma:strict");
        c
    }
}

impl Default for Case {
    fn default() -> Self {
        Case::new()
    }
}

/// scales a watchdog for the Miri interpreter (~10^3 times slower); watchdogs return as soon as their condition holds
pub fn wd(d: Duration) -> Duration {
    if cfg!(miri) {
        d * 40
    } else {
        d
    }
}

/// generous watchdog (its firing is inconclusive, never a verdict); the Miri interpreter is ~10^3 times slower
pub const WAIT: Duration = Duration::from_secs(if cfg!(miri) { 900 } else { 40 });

impl Running {
    /// waits until everything sent so far (`sent` harness events + announced self-sends) is consumed
    pub fn quiescent(&mut self, sent: u64) -> Wait {
        let r = rec::wait_quiescent(self.tracer, sent, WAIT);
        if r == Wait::Idle {
            rec::sample_config(self.tracer, &self.session.global_data, "idle");
        }
        r
    }
    /// waits for the next idle point (or the end of the session)
    pub fn next_idle(&mut self) -> Wait {
        let r = rec::wait_idle(self.tracer, self.idles_seen + 1, WAIT);
        if r == Wait::Idle {
            self.idles_seen += 1;
            rec::sample_config(self.tracer, &self.session.global_data, "idle");
        }
        r
    }
    pub fn send(&self, name: &str) -> bool {
        self.session.sender.send(Box::new(Event::new_simple(name))).is_ok()
    }
    pub fn send_event(&self, e: Event) -> bool {
        self.session.sender.send(Box::new(e)).is_ok()
    }
    pub fn finish(&mut self) -> bool {
        if !rec::is_finished(self.tracer) {
            let _ = self.send(CANCEL);
        }
        let ok = rec::wait_finished(self.tracer, WAIT);
        if ok {
            if let Some(h) = self.session.thread.take() {
                let _ = h.join();
            }
        }
        ok
    }
    pub fn final_configuration(&self) -> Option<Vec<String>> {
        match self.session.global_data.lock() {
            Ok(g) => g.final_configuration.clone(),
            Err(p) => p.into_inner().final_configuration.clone(),
        }
    }
}

#[derive(Debug, Clone, PartialEq)]
pub enum RunStatus {
    Completed,
    /// watchdog fired (inconclusive unless a monitor says otherwise)
    TimedOut(String),
    ReaderRejected(String),
}

pub struct RunResult {
    pub status: RunStatus,
    pub log: Vec<Entry>,
    pub tracer: u32,
    pub info: Option<ModelInfo>,
    pub final_configuration: Option<Vec<String>>,
    pub session_thread_panicked: bool,
}

/// One event per completed macrostep (idle barrier), then cancel.
pub fn run_doc(xml: &str, path: &[String]) -> RunResult {
    run_doc_mode(xml, path, false)
}

/// `prequeue`: the document's global script contains `gate(1)`; all events are queued while the
/// session waits there, i.e. before the first macrostep.
pub fn run_doc_mode(xml: &str, path: &[String], prequeue: bool) -> RunResult {
    let mut case = Case::new();
    let fsm = match parse_xml(xml) {
        Ok(f) => f,
        Err(e) => {
            return RunResult {
                status: RunStatus::ReaderRejected(e),
                log: rec::take_log(),
                tracer: 0,
                info: None,
                final_configuration: None,
                session_thread_panicked: false,
            }
        }
    };
    let mut r = case.start(fsm);
    let mut status = RunStatus::Completed;
    let mut ended = false;
    if prequeue {
        if !rec::wait_gate(1, 1, WAIT) {
            status = RunStatus::TimedOut("gate".into());
        } else {
            for e in path {
                rec::harness_note(&format!("SEND {}", e));
                r.send(e);
            }
            rec::release_gate(1, 0);
            match r.quiescent(path.len() as u64) {
                Wait::Idle => {}
                Wait::Finished => ended = true,
                Wait::Timeout => status = RunStatus::TimedOut("prequeued events".into()),
            }
        }
    } else {
        match r.quiescent(0) {
            Wait::Idle => {}
            Wait::Finished => ended = true,
            Wait::Timeout => status = RunStatus::TimedOut("start".into()),
        }
        if status == RunStatus::Completed && !ended {
            for (i, e) in path.iter().enumerate() {
                rec::harness_note(&format!("SEND {}", e));
                r.send(e);
                match r.quiescent(i as u64 + 1) {
                    Wait::Idle => {}
                    Wait::Finished => {
                        ended = true;
                        break;
                    }
                    Wait::Timeout => {
                        status = RunStatus::TimedOut(format!("event #{} {}", i, e));
                        break;
                    }
                }
            }
        }
    }
    let _ = ended;
    let mut panicked = false;
    if status == RunStatus::Completed {
        if !r.finish() {
            status = RunStatus::TimedOut("finish".into());
        }
    } else {
        // try to get rid of the session anyway
        let _ = r.send(CANCEL);
    }
    for p in crate::phook::take_panics() {
        if p.thread.starts_with("fsm_") {
            panicked = true;
            rec::harness_note(&format!("session thread panic: {} @ {}", p.message, p.location));
        }
    }
    let fc = r.final_configuration();
    RunResult {
        status,
        log: rec::take_log(),
        tracer: r.tracer,
        info: Some(r.info),
        final_configuration: fc,
        session_thread_panicked: panicked,
    }
}

/// canonical observed lines of one tracer (same alphabet as refsim's lines)
pub fn canonical_lines(res: &RunResult) -> Vec<String> {
    let info = match &res.info {
        Some(i) => i,
        None => return vec![],
    };
    let root_name = info.names.get(&info.pseudo_root).cloned().unwrap_or_default();
    let session_tid = res.log.iter().find(|e| e.tracer == res.tracer).map(|e| e.tid);
    let mut out = Vec::new();
    for e in &res.log {
        let mine = e.tracer == res.tracer || (e.tracer == 0 && Some(e.tid) == session_tid);
        if !mine {
            continue;
        }
        match &e.ev {
            Ev::Enter(_, n) => {
                if *n != root_name {
                    out.push(format!("+ {}", n));
                }
            }
            Ev::Exit(_, n) => {
                if *n != root_name {
                    out.push(format!("- {}", n));
                }
            }
            Ev::Enabled(ids) => {
                if !ids.is_empty() {
                    out.push(format!(
                        "T {}",
                        ids.iter()
                            .map(|i| info.trans_uid.get(i).cloned().unwrap_or(format!("?{}", i)))
                            .collect::<Vec<_>>()
                            .join(" ")
                    ));
                }
            }
            Ev::ISend(ev) => out.push(format!("Q {}", ev.name)),
            Ev::IRecv(ev) => out.push(format!("I {}", ev.name)),
            Ev::XRecv(ev) => out.push(format!("X {}", ev.name)),
            Ev::Mark { tag, .. } if tag == "in" || tag == "ev" || tag == "data" || tag == "ro" => {
                // probes of C09: checked by their own monitors, not part of the reference trace
            }
            Ev::Mark { tag, args, .. } => {
                let a: Vec<String> = args
                    .iter()
                    .map(|v| match v {
                        crate::expr_ref::V::Int(i) => i.to_string(),
                        crate::expr_ref::V::Dbl(d) if d.fract() == 0.0 => format!("{}", *d as i64),
                        o => o.show(),
                    })
                    .collect();
                out.push(format!("M {}({})", tag, a.join(",")));
            }
            _ => {}
        }
    }
    out
}

pub fn first_divergence(expected: &[String], observed: &[String]) -> Option<(usize, String, String)> {
    let n = expected.len().max(observed.len());
    for i in 0..n {
        let e = expected.get(i).cloned().unwrap_or_else(|| "<end>".to_string());
        let o = observed.get(i).cloned().unwrap_or_else(|| "<end>".to_string());
        if e != o {
            return Some((i, e, o));
        }
    }
    None
}
