//! C11 – expression parsing and evaluation always terminate with a value or an error.
use crate::expr_ref::*;
use crate::exprrun::{fill_store, new_global, panic_text};
use crate::lockmon;
use crate::report::{Args, Report};
use crate::rng::Rng;
use rufsm::datamodel::expression_engine::RFsmExpressionDatamodel;
use rufsm::datamodel::{create_data_arc, Data, Datamodel, GlobalDataArc, SourceCode};
use rufsm::expression_engine::parser::ExpressionParser;
use serde_json::json;
use std::panic::{catch_unwind, AssertUnwindSafe};
use std::sync::mpsc;
use std::time::Duration;

#[derive(Clone, Copy, Debug, PartialEq)]
pub enum Entry {
    ParseExecute,
    DmExecute,
    DmCondition,
    DmAssignTo,
    DmAssignFrom,
    DmLocation,
    DmForEach,
}

const ENTRIES: [Entry; 7] = [
    Entry::ParseExecute,
    Entry::DmExecute,
    Entry::DmCondition,
    Entry::DmAssignTo,
    Entry::DmAssignFrom,
    Entry::DmLocation,
    Entry::DmForEach,
];

#[derive(Debug, Clone)]
pub enum Outcome {
    Value,
    Error,
    Panic(String),
    SelfDeadlock(String),
    /// after the call: store locked / poisoned / follow-up evaluation wrong
    PostState(String),
    Timeout,
}

/// store with aliases: `b` is the same storage as `a`, `arr[0]` is `a`, `m.self_a` is `a`
fn alias_store() -> GlobalDataArc {
    let gd = new_global(&default_store());
    {
        let mut g = gd.lock().unwrap();
        let a = create_data_arc(Data::Integer(5));
        g.data.map.insert("a".into(), a.clone());
        g.data.map.insert("b".into(), a.clone());
        g.data.map.insert("arr".into(), create_data_arc(Data::Array(vec![a.clone(), create_data_arc(Data::Integer(2)), a.clone()])));
        let mut m = std::collections::HashMap::new();
        m.insert("self_a".to_string(), a.clone());
        m.insert("k".to_string(), create_data_arc(Data::Integer(1)));
        g.data.map.insert("m".into(), create_data_arc(Data::Map(m)));
        g.data.map.insert("s".into(), create_data_arc(Data::String("text".into())));
        g.data.map.insert("f".into(), create_data_arc(Data::Double(1.5)));
        g.data.map.insert("t".into(), create_data_arc(Data::Boolean(true)));
        g.data.map.insert("n".into(), create_data_arc(Data::Null()));
    }
    gd
}

fn post_state(gd: &GlobalDataArc) -> Result<(), String> {
    match gd.try_lock() {
        Ok(g) => {
            for (k, v) in &g.data.map {
                match v.arc.try_lock() {
                    Ok(_) => {}
                    Err(std::sync::TryLockError::Poisoned(_)) => return Err(format!("value '{}' is poisoned", k)),
                    Err(std::sync::TryLockError::WouldBlock) => return Err(format!("value '{}' is left locked", k)),
                }
            }
        }
        Err(std::sync::TryLockError::Poisoned(_)) => return Err("the data store is poisoned".into()),
        Err(std::sync::TryLockError::WouldBlock) => return Err("the data store is left locked".into()),
    }
    let r = catch_unwind(AssertUnwindSafe(|| {
        let mut g = gd.lock().unwrap();
        ExpressionParser::execute("1 + 1".to_string(), &mut g)
    }));
    match r {
        Ok(Ok(v)) => match v.arc.try_lock() {
            Ok(d) => {
                if let Data::Integer(2) = &*d {
                    Ok(())
                } else {
                    Err(format!("follow-up evaluation of '1 + 1' gives {}", d))
                }
            }
            Err(_) => Err("follow-up result locked".into()),
        },
        Ok(Err(e)) => Err(format!("follow-up evaluation of '1 + 1' fails: {}", e)),
        Err(_) => Err("follow-up evaluation panics".into()),
    }
}

fn run_entry(text: &str, entry: Entry, gd: &GlobalDataArc) -> Result<bool, String> {
    // returns Ok(true) = value, Ok(false) = error
    match entry {
        Entry::ParseExecute => {
            let parsed = ExpressionParser::parse(text.to_string());
            match parsed {
                Err(_) => Ok(false),
                Ok(e) => {
                    let r = {
                        let mut g = gd.lock().map_err(|_| "poisoned".to_string())?;
                        e.execute(&mut g, false)
                    };
                    Ok(r.is_ok())
                }
            }
        }
        _ => {
            let mut dm = RFsmExpressionDatamodel::new(gd.clone());
            let src = Data::Source(SourceCode::new(text, 4242));
            Ok(match entry {
                Entry::DmExecute => dm.execute(&src).is_ok() && dm.execute(&src).is_ok(),
                Entry::DmCondition => dm.execute_condition(&src).is_ok(),
                Entry::DmAssignTo => dm.assign(&src, &Data::Source(SourceCode::new("1", 4243))),
                Entry::DmAssignFrom => dm.assign(&Data::Source(SourceCode::new("vi", 4244)), &src),
                Entry::DmLocation => dm.get_by_location(text).is_ok(),
                Entry::DmForEach => dm.execute_for_each(&src, "it", "ix", &mut |d: &mut dyn Datamodel| -> bool {
                    let _ = d.execute(&Data::Source(SourceCode::new("it", 0)));
                    true
                }),
                Entry::ParseExecute => unreachable!(),
            })
        }
    }
}

/// one case in its own thread (default 2 MiB stack like a session thread)
pub fn run_case(text: &str, entry: Entry, timeout: Duration) -> Outcome {
    let (tx, rx) = mpsc::channel();
    let t = text.to_string();
    let h = std::thread::Builder::new().name("c11case".into()).spawn(move || {
        lockmon::clear_thread();
        let gd = alias_store();
        let r = catch_unwind(AssertUnwindSafe(|| run_entry(&t, entry, &gd)));
        let out = match r {
            Ok(Ok(v)) => {
                lockmon::clear_thread();
                match post_state(&gd) {
                    Ok(()) => {
                        if v {
                            Outcome::Value
                        } else {
                            Outcome::Error
                        }
                    }
                    Err(e) => Outcome::PostState(e),
                }
            }
            Ok(Err(e)) => Outcome::PostState(e),
            Err(p) => {
                lockmon::clear_thread();
                let msg = panic_text(p);
                if msg.contains(lockmon::RELOCK_PANIC_PREFIX) {
                    Outcome::SelfDeadlock(msg)
                } else {
                    Outcome::Panic(msg)
                }
            }
        };
        let _ = tx.send(out);
    });
    if h.is_err() {
        return Outcome::Timeout;
    }
    match rx.recv_timeout(timeout) {
        Ok(o) => o,
        Err(_) => Outcome::Timeout,
    }
}

// ---------------------------------------------------------------------------------------------
// generators

fn any_leaf(rng: &mut Rng) -> String {
    let leaves = [
        "0", "-1", "1", "9223372036854775807", "-9223372036854775808", "1e308", "-1e308", "1e-320", "0.0", "-0.0", "2.5", "''", "'x'", "\"q\"", "'é'",
        "true", "false", "null", "[]", "[1,2]", "{}", "{'a':1}", "a", "b", "arr", "m", "s", "f", "t", "n", "vi", "vm", "va", "undefinedvar",
        "arr[0]", "m.self_a", "m.k", "vm.in", "va[1]", "ro", "_event", "[a,a]", "{'x':a}", "[[[]]]",
    ];
    leaves[rng.below(leaves.len())].to_string()
}

fn any_expr(rng: &mut Rng, depth: u32) -> String {
    if depth == 0 || rng.chance(1, 4) {
        return any_leaf(rng);
    }
    let ops = ["+", "-", "*", "/", ":", "%", "&", "|", "<", "<=", ">", ">=", "==", "!=", "=", "?="];
    match rng.below(12) {
        0..=5 => format!("{} {} {}", any_expr(rng, depth - 1), ops[rng.below(ops.len())], any_expr(rng, depth - 1)),
        6 => format!("!{}", any_expr(rng, depth - 1)),
        7 => format!("({})", any_expr(rng, depth - 1)),
        8 => format!("{}[{}]", any_leaf(rng), any_expr(rng, depth - 1)),
        9 => {
            let f = ["length", "abs", "indexOf", "toString", "isDefined", "In", "log", "nosuchaction"];
            let n = rng.below(3);
            let args: Vec<String> = (0..n).map(|_| any_expr(rng, depth - 1)).collect();
            format!("{}({})", f[rng.below(f.len())], args.join(", "))
        }
        10 => {
            let f = ["length", "abs", "indexOf", "toString", "isDefined"];
            format!("{}.{}({})", any_leaf(rng), f[rng.below(f.len())], if rng.chance(1, 2) { any_expr(rng, depth - 1) } else { String::new() })
        }
        _ => format!("{}; {}", any_expr(rng, depth - 1), any_expr(rng, depth - 1)),
    }
}

fn mutate(s: &str, rng: &mut Rng) -> String {
    let chars: Vec<char> = s.chars().collect();
    if chars.is_empty() {
        return "(".to_string();
    }
    let mut c = chars.clone();
    for _ in 0..1 + rng.below(3) {
        let i = rng.below(c.len().max(1));
        match rng.below(8) {
            0 => {
                if !c.is_empty() {
                    c.remove(i.min(c.len() - 1));
                }
            }
            1 => {
                let x = c[i.min(c.len() - 1)];
                c.insert(i, x);
            }
            2 => {
                let j = rng.below(c.len());
                let k = i.min(c.len() - 1);
                c.swap(k, j);
            }
            3 => c.insert(i, *rng.pick(&['(', ')', '[', ']', '{', '}'])),
            4 => c.insert(i, *rng.pick(&['.', ':', ';', '?', ',', '!', '=', '\\', '\'', '"'])),
            5 => c.truncate(i),
            6 => {
                for ch in "\\u00".chars() {
                    c.insert(i.min(c.len()), ch);
                }
            }
            _ => c.insert(i, *rng.pick(&['\0', '\u{7f}', '\u{301}', '\u{202e}', '𝄞', '日', '\n', '\t'])),
        }
        if c.is_empty() {
            break;
        }
    }
    c.into_iter().collect()
}

fn unicode_soup(rng: &mut Rng) -> String {
    let n = rng.below(24);
    let mut s = String::new();
    for _ in 0..n {
        let c = match rng.below(8) {
            0 => char::from_u32(rng.below(0x80) as u32),
            1 => char::from_u32(0x80 + rng.below(0x780) as u32),
            2 => char::from_u32(0x800 + rng.below(0xF000) as u32),
            3 => char::from_u32(0x10000 + rng.below(0xFFFFF) as u32),
            4 => Some(*rng.pick(&['\'', '"', '\\', '(', '[', '{', '.', '-', '+', 'e', 'E', '0', '9'])),
            5 => Some(*rng.pick(&['\u{0}', '\u{301}', '\u{200d}', '\u{feff}'])),
            _ => Some(*rng.pick(&['a', 'b', '1', ' ', '=', '?', ';', ':'])),
        };
        if let Some(c) = c {
            s.push(c);
        }
    }
    s
}

pub fn alias_corpus() -> Vec<(&'static str, &'static str)> {
    vec![
        ("assign-to-itself", "a = a"),
        ("init-from-itself", "a ?= a"),
        ("assign-alias", "a = b"),
        ("assign-alias-rev", "b = a"),
        ("index-by-itself", "arr[arr]"),
        ("index-alias", "arr[a]"),
        ("array-element-from-alias", "arr[0] = a"),
        ("array-element-to-itself", "arr[0] = arr[0]"),
        ("array-element-cross", "arr[0] = arr[2]"),
        ("array-assign-itself", "arr = arr"),
        ("map-member-from-map", "m.k = m"),
        ("map-assign-itself", "m = m"),
        ("map-member-itself", "m.k = m.k"),
        ("map-member-alias", "m.self_a = a"),
        ("var-from-map-member-alias", "a = m.self_a"),
        ("compare-itself", "a == a"),
        ("compare-alias", "a == b"),
        ("compare-arrays-of-alias", "[a,a] == [a,a]"),
        ("compare-array-itself", "arr == arr"),
        ("compare-map-itself", "m == m"),
        ("call-with-alias", "indexOf(s, s)"),
        ("add-itself", "arr + arr"),
        ("add-map-itself", "m + m"),
        ("array-containing-itself", "arr[1] = arr; toString(arr)"),
        ("map-containing-itself", "m.k = m; toString(m)"),
        ("map-containing-itself-compare", "m.k = m; m == m.k"),
        ("map-containing-itself-length", "m.k = m; length(m)"),
        ("init-member-from-parent", "m.fresh ?= m"),
        ("init-alias", "c ?= a; c = a"),
        ("self-in-literal", "a = [a]"),
        ("self-in-map-literal", "a = {'x': a}"),
        ("sequence-alias", "b = 1; a = b"),
        ("remainder-by-zero", "7 % 0"),
        ("remainder-min-by-minus-one", "-9223372036854775808 % -1"),
        ("abs-min", "abs(-9223372036854775808)"),
        ("huge-exponent", "1e999999"),
        ("negative-index", "va[-1]"),
        ("huge-index", "va[9223372036854775807]"),
        ("double-index", "va[1e300]"),
        ("division-zero", "1 / 0"),
        ("division-zero-zero", "0 / 0"),
        ("modulus-double-zero", "1.5 % 0"),
        ("empty", ""),
        ("blank", "   "),
    ]
}

pub fn run(args: &Args, rep: &mut Report) {
    let mut rng = args.rng(11);
    let mut cases: Vec<(String, String, Entry)> = Vec::new();
    // (0) fixed aliasing / extreme-operand corpus, every entry point (shard 0)
    if args.shard == 0 {
        for (label, text) in alias_corpus() {
            for e in ENTRIES {
                cases.push((label.to_string(), text.to_string(), e));
                rep.count("alias_corpus_cases", 1);
            }
        }
    }
    // (0b) containment family: one operand is stored inside the other (a literal array / map built around the very
    // value, or an alias held by a stored container), for every binary operator, index and call position - the
    // evaluator then copies, compares or formats a container while it holds the lock of a value inside it
    {
        let ops = ["+", "-", "*", "/", "%", "&", "|", "<", "<=", ">", ">=", "==", "!=", "=", "?="];
        let vars = ["s", "a", "arr", "m", "f", "t", "n", "m.self_a", "arr[0]"];
        let mut k = 0usize;
        for x in vars {
            let wraps = [format!("[{}]", x), format!("{{'k': {}}}", x), format!("[[{}]]", x), format!("[1, {}, {}]", x, x), "arr".to_string(), "m".to_string()];
            for w in &wraps {
                for op in ops {
                    for text in [format!("{} {} {}", x, op, w), format!("{} {} {}", w, op, x)] {
                        k += 1;
                        if args.mine(k) {
                            cases.push(("containment".into(), text, ENTRIES[k % ENTRIES.len()]));
                            rep.count("family_containment", 1);
                        }
                    }
                }
                for text in [format!("{}[{}]", x, w), format!("{}[{}]", w, x), format!("indexOf({}, {})", x, w), format!("toString({}) + {}", x, w), format!("length({}) + {}", w, x)] {
                    k += 1;
                    if args.mine(k) {
                        cases.push(("containment".into(), text, ENTRIES[k % ENTRIES.len()]));
                        rep.count("family_containment", 1);
                    }
                }
            }
        }
    }
    // (1) grammar-derived with all type combinations
    let n1 = args.scale(2500, 80000);
    for i in 0..n1 {
        let depth = 1 + rng.below(4) as u32;
        let text = any_expr(&mut rng, depth);
        cases.push(("generated".into(), text, ENTRIES[i % ENTRIES.len()]));
        rep.count("family_generated", 1);
    }
    // (2) mutations of well-formed expressions
    let n2 = args.scale(2500, 80000);
    for i in 0..n2 {
        let base = if rng.chance(1, 2) {
            let ty = *rng.pick(&[Ty::Int, Ty::Str, Ty::Bool, Ty::Arr, Ty::Map, Ty::Dbl]);
            render(&gen_tree(ty, 3, &mut rng)).canonical()
        } else {
            any_expr(&mut rng, 3)
        };
        let text = mutate(&base, &mut rng);
        cases.push(("mutated".into(), text, ENTRIES[i % ENTRIES.len()]));
        rep.count("family_mutated", 1);
    }
    // (3) arbitrary unicode
    let n3 = args.scale(1500, 40000);
    for i in 0..n3 {
        let text = unicode_soup(&mut rng);
        cases.push(("unicode".into(), text, ENTRIES[i % ENTRIES.len()]));
        rep.count("family_unicode", 1);
    }
    if args.miri() {
        // no sub-processes inside the Miri interpreter: a seed-dependent sample of the cases runs in-process
        // (Miri itself reports a deadlock or undefined behaviour and ends the process with the case on record)
        let sampled: Vec<(String, String, Entry)> = cases
            .iter()
            .enumerate()
            .filter(|(i, c)| c.0 != "generated" && c.0 != "mutated" && c.0 != "unicode" && c.0 != "containment" && args.keep(*i, 9) || (c.0 == "generated" || c.0 == "mutated" || c.0 == "unicode" || c.0 == "containment"))
            .map(|(_, c)| c.clone())
            .collect();
        run_inprocess(args, rep, &sampled);
        return;
    }
    run_batches(args, rep, &cases);
    // (4) nesting depth / chain length probes in sub-processes (shard 1)
    if args.shard == 1 % args.nshards {
        depth_probes(args, rep);
    }
}

fn run_inprocess(args: &Args, rep: &mut Report, cases: &[(String, String, Entry)]) {
    use std::io::Write;
    lockmon::set_level(1);
    lockmon::set_panic_on_relock(true);
    let mut results: Vec<Option<(String, String)>> = vec![None; cases.len()];
    let progress = args.out.join(format!("c11-miri-progress-{}.txt", args.shard));
    for (i, (_, text, e)) in cases.iter().enumerate() {
        // the case in progress is on disk before it runs: if Miri ends the process the driver attributes its report
        if let Ok(mut f) = std::fs::File::create(&progress) {
            let _ = writeln!(f, "{}", json!({"expression": text, "entry": entry_name(*e)}));
        }
        let o = run_case(text, *e, Duration::from_secs(600));
        let (kind, detail) = match &o {
            Outcome::Value => ("value", String::new()),
            Outcome::Error => ("error", String::new()),
            Outcome::Panic(p) => ("panic", p.clone()),
            Outcome::SelfDeadlock(p) => ("selfdeadlock", p.clone()),
            Outcome::PostState(p) => ("poststate", p.clone()),
            Outcome::Timeout => ("timeout", String::new()),
        };
        results[i] = Some((kind.to_string(), detail));
        if kind == "timeout" {
            break;
        }
    }
    let _ = std::fs::remove_file(&progress);
    judge_results(rep, cases, &results);
    lockmon::set_level(0);
    lockmon::set_panic_on_relock(false);
}

fn entry_name(e: Entry) -> &'static str {
    match e {
        Entry::ParseExecute => "ParseExecute",
        Entry::DmExecute => "DmExecute",
        Entry::DmCondition => "DmCondition",
        Entry::DmAssignTo => "DmAssignTo",
        Entry::DmAssignFrom => "DmAssignFrom",
        Entry::DmLocation => "DmLocation",
        Entry::DmForEach => "DmForEach",
    }
}

pub fn entry_by_name(s: &str) -> Entry {
    entry_from(s)
}

fn entry_from(s: &str) -> Entry {
    for e in ENTRIES {
        if entry_name(e) == s {
            return e;
        }
    }
    Entry::ParseExecute
}

/// child: `rv c11batch <in> <out> <first>`: runs cases first.. in order; writes "S <i>" before and
/// "R <i> <outcome json>" after each case; exits 9 after a case that did not terminate
pub fn batch_main(infile: &str, outfile: &str, first: usize) -> i32 {
    use std::io::Write;
    lockmon::set_level(1);
    lockmon::set_panic_on_relock(true);
    let text = std::fs::read_to_string(infile).unwrap_or_default();
    let cases: Vec<serde_json::Value> = text.lines().filter_map(|l| serde_json::from_str(l).ok()).collect();
    let mut out = match std::fs::OpenOptions::new().create(true).append(true).open(outfile) {
        Ok(f) => f,
        Err(_) => return 2,
    };
    for (i, c) in cases.iter().enumerate().skip(first) {
        let _ = writeln!(out, "S {}", i);
        let _ = out.flush();
        let t = c["text"].as_str().unwrap_or("");
        let e = entry_from(c["entry"].as_str().unwrap_or(""));
        let o = run_case(t, e, Duration::from_secs(15));
        let (kind, detail) = match &o {
            Outcome::Value => ("value", String::new()),
            Outcome::Error => ("error", String::new()),
            Outcome::Panic(p) => ("panic", p.clone()),
            Outcome::SelfDeadlock(p) => ("selfdeadlock", p.clone()),
            Outcome::PostState(p) => ("poststate", p.clone()),
            Outcome::Timeout => ("timeout", String::new()),
        };
        let _ = writeln!(out, "R {} {}", i, json!({"kind": kind, "detail": detail.chars().take(500).collect::<String>()}));
        let _ = out.flush();
        if kind == "timeout" {
            // the stuck thread cannot be stopped: leave the process
            return 9;
        }
    }
    0
}

fn run_batches(args: &Args, rep: &mut Report, cases: &[(String, String, Entry)]) {
    use std::io::Write;
    let dir = args.out.join(format!("c11batch-{}", args.shard));
    let _ = std::fs::create_dir_all(&dir);
    let infile = dir.join("cases.jsonl");
    let outfile = dir.join("results.txt");
    let _ = std::fs::remove_file(&outfile);
    {
        let mut f = std::fs::File::create(&infile).unwrap();
        for (label, text, e) in cases {
            let _ = writeln!(f, "{}", json!({"label": label, "text": text, "entry": entry_name(*e)}));
        }
    }
    let exe = std::env::current_exe().unwrap();
    let mut first = 0usize;
    let mut results: Vec<Option<(String, String)>> = vec![None; cases.len()];
    let mut restarts = 0;
    while first < cases.len() && restarts < 500 {
        restarts += 1;
        // address-space limit so that a runaway allocation aborts the child instead of the machine
        let cmd = format!(
            "ulimit -v 6000000; exec '{}' c11batch '{}' '{}' {}",
            exe.display(),
            infile.display(),
            outfile.display(),
            first
        );
        let child = std::process::Command::new("sh")
            .arg("-c")
            .arg(&cmd)
            .stdout(std::process::Stdio::null())
            .stderr(std::process::Stdio::null())
            .spawn();
        let mut child = match child {
            Ok(c) => c,
            Err(e) => {
                rep.inconclusive(&format!("cannot spawn batch child: {}", e));
                return;
            }
        };
        // watchdog on progress of the result file
        let mut last_len = 0u64;
        let mut last_progress = std::time::Instant::now();
        let status = loop {
            match child.try_wait() {
                Ok(Some(st)) => break Some(st),
                Ok(None) => {}
                Err(_) => break None,
            }
            let len = std::fs::metadata(&outfile).map(|m| m.len()).unwrap_or(0);
            if len != last_len {
                last_len = len;
                last_progress = std::time::Instant::now();
            } else if last_progress.elapsed() > Duration::from_secs(60) {
                let _ = child.kill();
                let _ = child.wait();
                break None;
            }
            std::thread::sleep(Duration::from_millis(20));
        };
        // read what we have
        let text = std::fs::read_to_string(&outfile).unwrap_or_default();
        let mut started: Option<usize> = None;
        for l in text.lines() {
            let mut it = l.splitn(3, ' ');
            match (it.next(), it.next(), it.next()) {
                (Some("S"), Some(i), _) => started = i.parse().ok(),
                (Some("R"), Some(i), Some(j)) => {
                    if let (Ok(i), Ok(v)) = (i.parse::<usize>(), serde_json::from_str::<serde_json::Value>(j)) {
                        if i < results.len() {
                            results[i] = Some((v["kind"].as_str().unwrap_or("").to_string(), v["detail"].as_str().unwrap_or("").to_string()));
                            if started == Some(i) {
                                started = None;
                            }
                        }
                    }
                }
                _ => {}
            }
        }
        let done_upto = results.iter().position(|r| r.is_none()).unwrap_or(results.len());
        use std::os::unix::process::ExitStatusExt;
        match status {
            Some(st) if st.code() == Some(0) => {
                first = done_upto;
                if first < cases.len() {
                    // child finished but results missing: harness problem
                    rep.inconclusive("batch child finished without all results");
                    return;
                }
            }
            Some(st) if st.code() == Some(9) => {
                first = done_upto;
            }
            Some(st) => {
                // died: attribute to the case in progress
                let i = started.unwrap_or(done_upto);
                if i < results.len() {
                    let how = match st.signal() {
                        Some(11) => "killed by SIGSEGV (stack overflow)".to_string(),
                        Some(6) => "aborted (SIGABRT: allocation failure or double panic)".to_string(),
                        Some(s) => format!("killed by signal {}", s),
                        None => format!("exit code {:?}", st.code()),
                    };
                    results[i] = Some(("died".to_string(), how));
                }
                first = i + 1;
            }
            None => {
                let i = started.unwrap_or(done_upto);
                if i < results.len() {
                    results[i] = Some(("timeout".to_string(), "no progress for 60 s, child killed".to_string()));
                }
                first = i + 1;
            }
        }
    }
    rep.count("batch_child_processes", restarts as u64);
    judge_results(rep, cases, &results);
}

fn judge_results(rep: &mut Report, cases: &[(String, String, Entry)], results: &[Option<(String, String)>]) {
    for (i, (label, text, entry)) in cases.iter().enumerate() {
        let (kind, detail) = match &results[i] {
            Some(r) => r.clone(),
            None => {
                rep.inconclusive("case without result");
                continue;
            }
        };
        rep.evaluations += 1;
        let head: String = text.chars().take(200).collect();
        let w = json!({"expression": text, "entry": entry_name(*entry), "label": label, "store": "alias_store(): b aliases a, arr[0] and arr[2] are a, m.self_a is a", "detail": detail});
        match kind.as_str() {
            "value" => {
                rep.count("outcome_value", 1);
                if text.chars().any(|c| "+-*/%&|<>=![.".contains(c)) {
                    rep.nontrivial_key(text);
                }
                if rep.samples.len() < rep.max_samples && label == "mutated" {
                    rep.sample(json!({"input": head, "entry": entry_name(*entry), "outcome": "value"}));
                }
            }
            "error" => {
                rep.count("outcome_error", 1);
                if rep.samples.len() < rep.max_samples && label == "unicode" {
                    rep.sample(json!({"input": head, "entry": entry_name(*entry), "outcome": "error"}));
                }
            }
            "panic" => {
                let loc = detail.rsplit(" @ ").next().unwrap_or("?").to_string();
                rep.violation(&format!("panic:{}", loc), &format!("{:?} via {} panics: {}", head, entry_name(*entry), detail.chars().take(300).collect::<String>()), w);
            }
            "selfdeadlock" => {
                rep.violation(
                    &format!("self-deadlock:{}", if label == "generated" || label == "mutated" || label == "unicode" || label == "containment" { classify_alias(text) } else { label.clone() }),
                    &format!("{:?} via {} locks a value it already holds (blocks forever on its own data lock)", head, entry_name(*entry)),
                    w,
                );
            }
            "poststate" => {
                rep.violation(
                    &format!("post-state:{}", detail.split(' ').take(5).collect::<Vec<_>>().join("-")),
                    &format!("after {:?} via {}: {}", head, entry_name(*entry), detail),
                    w,
                );
            }
            "died" => {
                rep.violation(
                    &format!("process-death:{}:{}", label, detail.split(' ').take(4).collect::<Vec<_>>().join("-")),
                    &format!("{:?} via {}: the process was {}", head, entry_name(*entry), detail),
                    w,
                );
            }
            _ => {
                rep.violation(
                    &format!("does-not-terminate:{}", if label == "generated" || label == "mutated" || label == "unicode" || label == "containment" { classify_alias(text) } else { label.clone() }),
                    &format!("{:?} via {} did not return ({})", head, entry_name(*entry), detail),
                    w,
                );
            }
        }
    }
}

/// coarse signature of a generated input for the finding key
fn classify_alias(text: &str) -> String {
    let has = |s: &str| text.contains(s);
    if has("?=") {
        "generated-with-init-assignment".to_string()
    } else if has(" = ") {
        "generated-with-assignment".to_string()
    } else if has("[") {
        "generated-with-index".to_string()
    } else {
        "generated-other".to_string()
    }
}

fn depth_shapes() -> Vec<(&'static str, fn(usize) -> String)> {
    vec![
        ("nested-parentheses", |n| format!("{}1{}", "(".repeat(n), ")".repeat(n))),
        ("nested-arrays", |n| format!("{}{}", "[".repeat(n), "]".repeat(n))),
        ("nested-maps", |n| format!("{}1{}", "{'a':".repeat(n), "}".repeat(n))),
        ("member-chain", |n| format!("vm{}", ".in".repeat(n))),
        ("index-chain", |n| format!("va{}", "[0]".repeat(n))),
        ("plus-chain", |n| format!("1{}", " + 1".repeat(n))),
        ("not-chain", |n| format!("{}true", "!".repeat(n))),
        ("sequence-chain", |n| format!("1{}", "; 1".repeat(n))),
        ("call-nesting", |n| format!("{}1{}", "abs(".repeat(n), ")".repeat(n))),
        ("comparison-chain", |n| format!("1{}", " == 1".repeat(n))),
    ]
}

/// child process: `rv c11sub <file> <main|thread>`; exit 0 = returned, 3 = panic caught; death by signal = overflow
pub fn sub_main(file: &str, mode: &str) -> i32 {
    let text = std::fs::read_to_string(file).unwrap_or_default();
    let work = move || -> i32 {
        let gd = alias_store();
        let r = catch_unwind(AssertUnwindSafe(|| run_entry(&text, Entry::ParseExecute, &gd)));
        match r {
            Ok(_) => 0,
            Err(_) => 3,
        }
    };
    if mode == "thread" {
        match std::thread::Builder::new().name("fsm_probe".into()).spawn(work) {
            Ok(h) => h.join().unwrap_or(4),
            Err(_) => 5,
        }
    } else {
        work()
    }
}

fn depth_probes(args: &Args, rep: &mut Report) {
    let exe = std::env::current_exe().unwrap();
    let dir = args.out.join("c11sub");
    let _ = std::fs::create_dir_all(&dir);
    let max = if args.thorough() { 1 << 17 } else { 1 << 14 };
    for (name, f) in depth_shapes() {
        for mode in ["main", "thread"] {
            let mut n = 16usize;
            let mut first_fail: Option<(usize, String)> = None;
            while n <= max {
                let text = f(n);
                let file = dir.join(format!("{}-{}.txt", name, n));
                let _ = std::fs::write(&file, &text);
                rep.evaluations += 1;
                rep.count("depth_probe_processes", 1);
                let st = std::process::Command::new(&exe)
                    .arg("c11sub")
                    .arg(&file)
                    .arg(mode)
                    .stdout(std::process::Stdio::null())
                    .stderr(std::process::Stdio::null())
                    .status();
                match st {
                    Ok(s) => {
                        use std::os::unix::process::ExitStatusExt;
                        if let Some(sig) = s.signal() {
                            first_fail = Some((n, format!("killed by signal {}", sig)));
                            break;
                        }
                        match s.code() {
                            Some(0) => {
                                rep.nontrivial_key(&format!("depth:{}:{}:{}", name, mode, n));
                            }
                            Some(3) => {
                                first_fail = Some((n, "panic".to_string()));
                                break;
                            }
                            c => {
                                rep.inconclusive(&format!("sub-process exit {:?}", c));
                                break;
                            }
                        }
                    }
                    Err(e) => {
                        rep.inconclusive(&format!("cannot spawn sub-process: {}", e));
                        break;
                    }
                }
                n *= 2;
            }
            if let Some((n, how)) = first_fail {
                rep.violation(
                    &format!("stack-exhaustion:{}", name),
                    &format!(
                        "{} with {} levels/elements on the {} ({}): process {}",
                        name,
                        n,
                        if mode == "main" { "main thread (8 MiB stack)" } else { "a spawned thread (2 MiB stack, like a session thread)" },
                        f(4),
                        how
                    ),
                    json!({"shape": name, "elements": n, "mode": mode, "example_with_4": f(4), "how": how}),
                );
            } else {
                rep.count("depth_shapes_survived", 1);
            }
        }
    }
}
