//! Process-wide panic hook: records (thread name, message, location) instead of printing.
use std::collections::HashMap;
use std::sync::{Mutex, OnceLock};
use std::thread::ThreadId;

#[derive(Clone, Debug)]
pub struct PanicRec {
    pub thread: String,
    pub message: String,
    pub location: String,
}

fn store() -> &'static Mutex<(HashMap<ThreadId, String>, Vec<PanicRec>)> {
    static S: OnceLock<Mutex<(HashMap<ThreadId, String>, Vec<PanicRec>)>> = OnceLock::new();
    S.get_or_init(|| Mutex::new((HashMap::new(), Vec::new())))
}

pub fn install() {
    static ONCE: OnceLock<()> = OnceLock::new();
    ONCE.get_or_init(|| {
        std::panic::set_hook(Box::new(|info| {
            let loc = info
                .location()
                .map(|l| {
                    // keep the path relative to the repository (stable across scratch copies)
                    let f = l.file();
                    let f = match f.rfind("/src/") {
                        Some(i) => &f[i + 1..],
                        None => f,
                    };
                    format!("{}:{}", f, l.line())
                })
                .unwrap_or_else(|| "?".to_string());
            let msg = if let Some(s) = info.payload().downcast_ref::<&str>() {
                s.to_string()
            } else if let Some(s) = info.payload().downcast_ref::<String>() {
                s.clone()
            } else {
                "<non-string>".to_string()
            };
            let t = std::thread::current();
            if let Some(n) = t.name() {
                if n.starts_with("fsm_") {
                    match dead().lock() {
                        Ok(mut g) => {
                            g.insert(n.to_string());
                        }
                        Err(p) => {
                            p.into_inner().insert(n.to_string());
                        }
                    }
                }
            }
            let mut g = match store().lock() {
                Ok(g) => g,
                Err(p) => p.into_inner(),
            };
            g.0.insert(t.id(), loc.clone());
            if g.1.len() < 10000 {
                g.1.push(PanicRec {
                    thread: t.name().unwrap_or("?").to_string(),
                    message: msg,
                    location: loc,
                });
            }
        }));
    });
}

fn dead() -> &'static Mutex<std::collections::HashSet<String>> {
    static D: OnceLock<Mutex<std::collections::HashSet<String>>> = OnceLock::new();
    D.get_or_init(|| Mutex::new(std::collections::HashSet::new()))
}

/// true if a thread with that name has panicked in this process (names of session threads are unique: fsm_<session id>)
pub fn thread_panicked(name: &str) -> bool {
    match dead().lock() {
        Ok(g) => g.contains(name),
        Err(p) => p.into_inner().contains(name),
    }
}

pub fn last_panic_location() -> Option<String> {
    let g = match store().lock() {
        Ok(g) => g,
        Err(p) => p.into_inner(),
    };
    g.0.get(&std::thread::current().id()).cloned()
}

/// drains all recorded panics
pub fn take_panics() -> Vec<PanicRec> {
    let mut g = match store().lock() {
        Ok(g) => g,
        Err(p) => p.into_inner(),
    };
    std::mem::take(&mut g.1)
}
