//! C13 – concurrent external events are each processed exactly once, in sender order, without overlap.
use crate::expr_ref::V;
use crate::lockmon;
use crate::rec::{self, Ev, Wait};
use crate::report::{Args, Report};
use crate::session::{parse_xml, Case};
use rufsm::fsm::Event;
use serde_json::json;
use std::collections::{BTreeMap, HashMap};
use std::sync::{Arc, Barrier};
use std::time::Duration;

/// The receiver. `children` = producer indices that are invoked children of the receiver (they send to `#_parent`
/// when the receiver relays the harness' `kick`); the wrapper state `top` is never left, so the invokes live on.
fn receiver_xml(children: &[usize], m: usize) -> String {
    let arr: Vec<String> = (0..m).map(|i| i.to_string()).collect();
    let mut invokes = String::new();
    let mut kick = String::new();
    for k in children {
        invokes.push_str(&format!(
            r##"  <invoke id="c{k}"><content><scxml xmlns="http://www.w3.org/2005/07/scxml" version="1.0" datamodel="rfsm-expression" initial="w">
   <state id="w"><transition event="go" target="d"><foreach array="[{arr}]" item="i"><send eventexpr="'p{k}.' + toString(i)" target="#_parent"/></foreach></transition></state>
   <state id="d"/></scxml></content></invoke>
"##,
            k = k,
            arr = arr.join(",")
        ));
        kick.push_str(&format!("<send event=\"go\" target=\"#_c{}\"/>", k));
    }
    let kick_tr = format!("<transition event=\"kick\"><script>mark('kick')</script>{}</transition>", kick);
    format!(
        r##"<scxml xmlns="http://www.w3.org/2005/07/scxml" version="1.0" datamodel="rfsm-expression" initial="top">
 <datamodel><data id="cnt" expr="0"/></datamodel>
 <state id="top" initial="s">
{invokes} <state id="s">
  <onentry><script>mark('en', 's')</script></onentry>
  <onexit><script>mark('ex', 's')</script></onexit>
  <transition event="stop" target="end"/>
  {kick}
  <transition event="follow"><script>mark('f', _event.data.u)</script></transition>
  <transition event="*" cond="cnt % 7 == 6" target="t">
   <script>mark('p', _event.name)</script><assign location="cnt" expr="cnt + 1"/>
   <send event="follow" target="#_internal"><param name="u" expr="_event.name"/></send>
  </transition>
  <transition event="*">
   <script>mark('p', _event.name)</script><assign location="cnt" expr="cnt + 1"/>
   <send event="follow" target="#_internal"><param name="u" expr="_event.name"/></send>
  </transition>
 </state>
 <state id="t">
  <onentry><script>mark('en', 't')</script></onentry>
  <onexit><script>mark('ex', 't')</script></onexit>
  <invoke srcexpr="noSuchVariable.uri"/>
  <transition event="error.execution"><script>mark('ierr')</script></transition>
  <transition event="stop" target="end"/>
  {kick}
  <transition event="follow"><script>mark('f', _event.data.u)</script></transition>
  <transition event="*" target="s">
   <script>mark('p', _event.name)</script><assign location="cnt" expr="cnt + 1"/>
   <send event="follow" target="#_internal"><param name="u" expr="_event.name"/></send>
  </transition>
 </state>
 </state>
 <final id="end"/>
</scxml>"##,
        invokes = invokes,
        kick = kick_tr
    )
}

fn sibling_doc(k: usize, m: usize, target: u32, delayed: bool) -> String {
    let arr: Vec<String> = (0..m).map(|i| i.to_string()).collect();
    format!(
        r##"<scxml xmlns="http://www.w3.org/2005/07/scxml" version="1.0" datamodel="rfsm-expression" initial="w">
 <datamodel><data id="target" expr="{target}"/></datamodel>
 <state id="w">
  <transition event="go" target="d">
   <foreach array="[{arr}]" item="i">
    <send eventexpr="'p{k}.' + toString(i)" targetexpr="'#_scxml_' + toString(target)"{delay}/>
   </foreach>
  </transition>
 </state>
 <state id="d"/>
</scxml>"##,
        target = target,
        arr = arr.join(","),
        k = k,
        delay = if delayed { " delay=\"1ms\"" } else { "" }
    )
}

#[derive(Clone, Copy, Debug, PartialEq)]
enum Kind {
    HostSender,
    HostExecutor,
    Sibling,
    SiblingTimer,
    /// an invoked child of the receiver sending to `#_parent`
    Child,
}

struct ScenarioResult {
    invoke_errors: u64,
    order: Vec<String>,
    violations: Vec<(String, String)>,
    inconclusive: Option<String>,
    interleaved: bool,
    events: usize,
    threads_seen: usize,
    receiver_xml: String,
}

fn scenario(kinds: &[Kind], m: usize, jitter: u64) -> ScenarioResult {
    let mut res = ScenarioResult {
        invoke_errors: 0,
        order: vec![],
        violations: vec![],
        inconclusive: None,
        interleaved: false,
        events: 0,
        threads_seen: 0,
        receiver_xml: String::new(),
    };
    if jitter != 0 {
        lockmon::set_level(2);
        lockmon::set_jitter(jitter);
    } else {
        lockmon::set_level(0);
        lockmon::set_jitter(0);
    }
    let mut case = Case::new();
    let children: Vec<usize> = kinds.iter().enumerate().filter(|(_, k)| **k == Kind::Child).map(|(i, _)| i).collect();
    let receiver = receiver_xml(&children, m);
    res.receiver_xml = receiver.clone();
    let fsm = match parse_xml(&receiver) {
        Ok(f) => f,
        Err(e) => {
            res.inconclusive = Some(e);
            return res;
        }
    };
    let mut recv = case.start(fsm);
    if recv.quiescent(0) != Wait::Idle {
        res.inconclusive = Some("receiver did not start".into());
        return res;
    }
    let target = recv.session.session_id;
    let n = kinds.len();
    let barrier = Arc::new(Barrier::new(kinds.iter().filter(|k| matches!(k, Kind::HostSender | Kind::HostExecutor)).count() + 1));
    let mut handles = Vec::new();
    let mut siblings = Vec::new();
    for (k, kind) in kinds.iter().enumerate() {
        match kind {
            Kind::HostSender => {
                let tx = recv.session.sender.clone();
                let b = barrier.clone();
                handles.push(std::thread::spawn(move || {
                    b.wait();
                    for i in 0..m {
                        let _ = tx.send(Box::new(Event::new_simple(&format!("p{}.{}", k, i))));
                        if i % 16 == 15 {
                            std::thread::yield_now();
                        }
                    }
                }));
            }
            Kind::HostExecutor => {
                let ex = case.executor.clone();
                let b = barrier.clone();
                handles.push(std::thread::spawn(move || {
                    b.wait();
                    for i in 0..m {
                        let _ = ex.send_to_session(target, Event::new_simple(&format!("p{}.{}", k, i)));
                    }
                }));
            }
            Kind::Child => {}
            Kind::Sibling | Kind::SiblingTimer => {
                let xml = sibling_doc(k, m, target, *kind == Kind::SiblingTimer);
                match parse_xml(&xml) {
                    Ok(f) => {
                        let mut s = case.start(f);
                        if s.quiescent(0) != Wait::Idle {
                            res.inconclusive = Some("sibling did not start".into());
                            return res;
                        }
                        siblings.push(s);
                    }
                    Err(e) => {
                        res.inconclusive = Some(e);
                        return res;
                    }
                }
            }
        }
    }
    // go
    for s in &siblings {
        s.send("go");
    }
    let mut extra = 0u64;
    if !children.is_empty() {
        recv.send("kick");
        extra = 1;
    }
    barrier.wait();
    for h in handles {
        let _ = h.join();
    }
    let total = (n * m) as u64 + extra;
    // all producers are done when the siblings are idle again; then everything must arrive
    for s in siblings.iter_mut() {
        if s.quiescent(1) != Wait::Idle {
            res.inconclusive = Some("sibling did not finish its sends".into());
        }
    }
    let w = rec::wait_quiescent_progress(recv.tracer, total, crate::session::wd(Duration::from_secs(20)), crate::session::wd(Duration::from_secs(600)));
    let complete = w == Wait::Idle;
    recv.send("stop");
    let finished = rec::wait_finished_progress(recv.tracer, crate::session::wd(Duration::from_secs(20)), crate::session::wd(Duration::from_secs(600)));
    for s in siblings.iter_mut() {
        s.finish();
    }
    lockmon::set_level(0);
    lockmon::set_jitter(0);
    let log = rec::take_log();
    if !finished {
        res.inconclusive = Some("receiver did not stop".into());
        return res;
    }
    // ---- offline checker ----
    let session_tid = log.iter().find(|e| e.tracer == recv.tracer).map(|e| e.tid);
    let mut tids = std::collections::BTreeSet::new();
    let mut current: Option<String> = None;
    let mut p_marks: HashMap<String, u32> = HashMap::new();
    let mut f_marks: HashMap<String, u32> = HashMap::new();
    let mut last_n: BTreeMap<String, i64> = BTreeMap::new();
    let mut stopped = false;
    // entering state t starts an <invoke> whose argument fails: the error event it raises is part of that macrostep
    let mut invoke_error_due: Option<String> = None;
    for e in &log {
        let is_tracer = e.tracer == recv.tracer;
        let is_mark = e.tracer == 0 && matches!(&e.ev, Ev::Mark { session, .. } if *session == target);
        if !(is_tracer || is_mark) {
            continue;
        }
        if !matches!(&e.ev, Ev::Config(..)) {
            tids.insert(e.tid);
        }
        match &e.ev {
            Ev::AtIdle { internal_queue, .. } if *internal_queue > 0 => {
                res.violations.push((
                    "overlap:internal-events-pending-when-next-event-is-dequeued".into(),
                    format!("the session went for its next external event while {} internal event(s) of the macrostep of {:?} were still queued", internal_queue, current),
                ));
            }
            Ev::XRecv(ev) => {
                if let Some(c) = invoke_error_due.take() {
                    res.violations.push((
                        "overlap:next-event-before-invoke-error".into(),
                        format!("event {} was dequeued before the error.execution raised by the <invoke> of the state entered for {} had been processed", ev.name, c),
                    ));
                }
                if ev.name == "stop" {
                    stopped = true;
                    current = None;
                    continue;
                }
                if ev.name == crate::refsim::CANCEL {
                    continue;
                }
                if ev.name.starts_with("done.invoke") {
                    res.violations.push(("done-invoke-of-a-running-child".into(), format!("{} received although no child ever reaches a final state", ev.name)));
                    continue;
                }
                if let Some(c) = &current {
                    // previous macrostep must be complete: its follow-up must have been processed
                    if f_marks.get(c).cloned().unwrap_or(0) == 0 {
                        res.violations.push((
                            "overlap:next-event-before-follow-up".into(),
                            format!("event {} was dequeued before the internal follow-up of {} had been processed", ev.name, c),
                        ));
                    }
                }
                if ev.name == "kick" {
                    current = None;
                    continue;
                }
                if let Some(k) = ev.name.strip_prefix('p').and_then(|x| x.split('.').next()).and_then(|x| x.parse::<usize>().ok()) {
                    // events of an invoked child must carry its invoke id, all others none
                    let want = if kinds.get(k) == Some(&Kind::Child) { Some(format!("c{}", k)) } else { None };
                    if ev.invokeid != want {
                        res.violations.push(("wrong-invokeid-on-event".into(), format!("event {} of a {:?} producer arrived with invokeid {:?}", ev.name, kinds.get(k), ev.invokeid)));
                    }
                }
                current = Some(ev.name.clone());
                res.order.push(ev.name.clone());
                let mut it = ev.name.splitn(2, '.');
                let prod = it.next().unwrap_or("").to_string();
                let nn: i64 = it.next().and_then(|x| x.parse().ok()).unwrap_or(-1);
                let last = last_n.get(&prod).cloned().unwrap_or(-1);
                if nn <= last {
                    res.violations.push((
                        if nn == last { "event-processed-twice" } else { "sender-order-violated" }.to_string(),
                        format!("event {} of producer {} processed after its event #{}", ev.name, prod, last),
                    ));
                }
                last_n.insert(prod, nn.max(last));
            }
            Ev::Mark { tag, args, .. } => {
                let a0 = match args.first() {
                    Some(V::Str(s)) => s.clone(),
                    _ => String::new(),
                };
                match tag.as_str() {
                    "en" if a0 == "t" => invoke_error_due = current.clone().or(Some("?".into())),
                    "ierr" => {
                        invoke_error_due = None;
                        res.invoke_errors += 1;
                    }
                    "p" => {
                        *p_marks.entry(a0.clone()).or_insert(0) += 1;
                        if current.as_deref() != Some(a0.as_str()) {
                            res.violations.push((
                                "overlap:content-of-other-event".into(),
                                format!("transition content ran with _event.name {} while the event being processed is {:?}", a0, current),
                            ));
                        }
                    }
                    "f" => {
                        *f_marks.entry(a0.clone()).or_insert(0) += 1;
                        if current.as_deref() != Some(a0.as_str()) {
                            res.violations.push((
                                "overlap:follow-up-of-other-event".into(),
                                format!("internal follow-up of {} processed while the event being processed is {:?}", a0, current),
                            ));
                        }
                    }
                    _ => {}
                }
            }
            _ => {}
        }
    }
    let _ = stopped;
    res.threads_seen = tids.len();
    if let Some(t) = session_tid {
        if tids.iter().any(|x| *x != t) {
            res.violations.push(("session-content-on-several-threads".into(), format!("entries of the receiving session come from threads {:?}", tids)));
        }
    }
    // exactly once
    let mut counts: HashMap<&String, u32> = HashMap::new();
    for o in &res.order {
        *counts.entry(o).or_insert(0) += 1;
    }
    for k in 0..n {
        for i in 0..m {
            let name = format!("p{}.{}", k, i);
            match counts.get(&name).cloned().unwrap_or(0) {
                1 => {
                    if p_marks.get(&name).cloned().unwrap_or(0) != 1 || f_marks.get(&name).cloned().unwrap_or(0) != 1 {
                        res.violations.push((
                            "macrostep-effects-not-exactly-once".into(),
                            format!("event {}: content ran {} times, follow-up processed {} times", name, p_marks.get(&name).cloned().unwrap_or(0), f_marks.get(&name).cloned().unwrap_or(0)),
                        ));
                    }
                }
                0 => {
                    if complete || matches!(kinds[k], Kind::HostSender | Kind::HostExecutor | Kind::Sibling | Kind::Child) {
                        res.violations.push(("event-never-processed".into(), format!("event {} ({:?}) was sent but never processed", name, kinds[k])));
                    } else {
                        res.inconclusive = Some(format!("timer event {} not seen within the window", name));
                    }
                }
                c => res.violations.push(("event-processed-twice".into(), format!("event {} processed {} times", name, c))),
            }
        }
    }
    res.events = res.order.len();
    // interleaving: not a concatenation of per-producer blocks
    let prods: Vec<&str> = res.order.iter().map(|o| o.split('.').next().unwrap_or("")).collect();
    let mut switches = 0;
    for w in prods.windows(2) {
        if w[0] != w[1] {
            switches += 1;
        }
    }
    res.interleaved = switches >= n;
    res
}

pub fn run(args: &Args, rep: &mut Report) {
    let mut rng = args.rng(13);
    let runs = args.scale(14, 300);
    let mut interleavings = std::collections::BTreeSet::new();
    for r in 0..runs {
        let mut n = *rng.pick(&[2usize, 3, 4, 8]);
        let mut m = *rng.pick(&[20usize, 50, 120, if args.thorough() { 1000 } else { 200 }]);
        if args.miri() {
            // every Miri seed is a different schedule: small scenario, many seeds
            n = 2 + (args.seed as usize + args.shard) % 2;
            m = 4;
        }
        let mut kinds = Vec::new();
        for k in 0..n {
            kinds.push(match (k + r + if args.miri() { args.seed as usize + args.shard } else { 0 }) % 5 {
                0 => Kind::HostSender,
                1 => Kind::Sibling,
                2 => Kind::HostExecutor,
                3 => Kind::Child,
                _ => Kind::SiblingTimer,
            });
        }
        let jitter = if r % 2 == 1 { rng.next() | 1 } else { 0 };
        let res = scenario(&kinds, m, jitter);
        rep.evaluations += 1;
        rep.count("events_processed", res.events as u64);
        rep.count("invoke_step_errors_inside_macrosteps", res.invoke_errors);
        rep.count(if jitter != 0 { "runs_with_lock_jitter" } else { "runs_plain_scheduling" }, 1);
        for k in &kinds {
            rep.count(&format!("producers_{:?}", k), 1);
        }
        if let Some(i) = &res.inconclusive {
            rep.inconclusive(i);
        }
        let proj: String = res.order.iter().map(|o| o.split('.').next().unwrap_or("").to_string()).collect::<Vec<_>>().join("");
        let h = crate::rng::fnv(&proj);
        interleavings.insert(h);
        if res.interleaved {
            rep.count("runs_interleaved", 1);
            rep.nontrivial_key(&format!("{:x}", h));
        }
        for (key, what) in &res.violations {
            rep.violation(
                key,
                what,
                json!({"producers": kinds.iter().map(|k| format!("{:?}", k)).collect::<Vec<_>>(), "events_per_producer": m, "jitter_seed": jitter,
                       "processing_order_head": res.order.iter().take(60).collect::<Vec<_>>(), "receiver_xml": res.receiver_xml}),
            );
        }
        if rep.samples.len() < rep.max_samples {
            rep.sample(json!({"producers": kinds.iter().map(|k| format!("{:?}", k)).collect::<Vec<_>>(), "events_per_producer": m, "jitter": jitter != 0,
                              "processing_order_head": res.order.iter().take(24).collect::<Vec<_>>()}));
        }
    }
    rep.count("distinct_interleavings_this_shard", interleavings.len() as u64);
}
