//! C01 – model-free legality monitor: shadow configuration from ENTER/EXIT events, comparison with
//! real configuration samples, legality predicate on every quiescent sample.

use crate::refsim::Flat;
use crate::rec::Ev;
use crate::session::RunResult;
use std::collections::BTreeSet;

#[derive(Default, Debug)]
pub struct LegalityStats {
    pub quiescent_samples: u64,
    pub mark_samples: u64,
    pub skipped_samples: u64,
    pub enters: u64,
    pub exits: u64,
    pub distinct_configs: BTreeSet<String>,
    pub configs_with_parallel: u64,
}

/// legality predicate over state indices of `f` (root = 0 is implicit)
pub fn legal(f: &Flat, cfg: &BTreeSet<usize>) -> Result<(), String> {
    let active_children = |s: usize| -> Vec<usize> { f.s[s].children.iter().cloned().filter(|c| cfg.contains(c)).collect() };
    let top = active_children(0);
    if top.len() != 1 {
        return Err(format!(
            "{} active children of the document root ({:?})",
            top.len(),
            top.iter().map(|&i| f.s[i].id.clone()).collect::<Vec<_>>()
        ));
    }
    for &s in cfg {
        if s == 0 {
            continue;
        }
        if f.is_history(s) {
            return Err(format!("history state {} is active", f.s[s].id));
        }
        let p = f.s[s].parent.unwrap();
        if p != 0 && !cfg.contains(&p) {
            return Err(format!("{} is active but its parent {} is not", f.s[s].id, f.s[p].id));
        }
        if f.is_compound(s) {
            let ac = active_children(s);
            if ac.len() != 1 {
                return Err(format!("compound state {} has {} active children", f.s[s].id, ac.len()));
            }
        } else if f.is_parallel(s) {
            let ac = active_children(s);
            if ac.len() != f.s[s].children.len() {
                return Err(format!(
                    "parallel state {} has {} of {} children active",
                    f.s[s].id,
                    ac.len(),
                    f.s[s].children.len()
                ));
            }
        }
    }
    Ok(())
}

pub fn check(f: &Flat, res: &RunResult, stats: &mut LegalityStats) -> Result<(), (String, String)> {
    let info = match &res.info {
        Some(i) => i,
        None => return Ok(()),
    };
    let root_name = info.names.get(&info.pseudo_root).cloned().unwrap_or_default();
    let idx_of = |name: &str| -> Option<usize> { f.by_id.get(name).cloned() };
    // real state id -> index in f
    let map_ids = |ids: &[u32]| -> Result<BTreeSet<usize>, (String, String)> {
        let mut r = BTreeSet::new();
        for i in ids {
            if *i == info.pseudo_root {
                continue;
            }
            let n = info.names.get(i).cloned().unwrap_or_default();
            match idx_of(&n) {
                Some(x) => {
                    r.insert(x);
                }
                None => {
                    return Err((
                        "unknown-state-in-configuration".to_string(),
                        format!("configuration contains state id {} ('{}') that the document does not declare", i, n),
                    ))
                }
            }
        }
        Ok(r)
    };
    let names = |c: &BTreeSet<usize>| -> String { c.iter().map(|&i| f.s[i].id.clone()).collect::<Vec<_>>().join(",") };

    let session_tid = res.log.iter().find(|e| e.tracer == res.tracer).map(|e| e.tid);
    let mut shadow: BTreeSet<usize> = BTreeSet::new();
    let mut last_exit: Option<usize> = None;
    let mut terminating = false;
    let mut last_enabled: Vec<String> = Vec::new();
    for e in &res.log {
        let mine = e.tracer == res.tracer || (e.tracer == 0 && Some(e.tid) == session_tid);
        if !mine {
            continue;
        }
        match &e.ev {
            Ev::Enter(_, n) => {
                if *n == root_name {
                    continue;
                }
                stats.enters += 1;
                last_exit = None;
                let i = idx_of(n).ok_or(("unknown-state-entered".to_string(), format!("ENTER of undeclared state {}", n)))?;
                if f.is_history(i) {
                    return Err(("history-entered".into(), format!("history pseudo-state {} was entered", n)));
                }
                if !shadow.insert(i) {
                    // signature of the one situation in which the W3C algorithm itself re-enters an
                    // active state: a taken transition targets a history state from inside that
                    // history's parent (addAncestorStatesToEnter(.., history.parent) then adds states
                    // that the transition's smaller domain did not exit)
                    let mut via_history = false;
                    for uid in &last_enabled {
                        for st in &f.s {
                            for t in &st.trans {
                                if &t.uid == uid {
                                    for &tg in &t.targets {
                                        if f.is_history(tg) {
                                            let hp = f.s[tg].parent.unwrap();
                                            if f.desc(t.src, hp) && f.desc(i, hp) {
                                                via_history = true;
                                            }
                                        }
                                    }
                                }
                            }
                        }
                    }
                    return Err((
                        if via_history {
                            "enter-while-active:transition-to-history-from-inside-its-parent".to_string()
                        } else {
                            "enter-while-active".to_string()
                        },
                        format!("state {} entered while already active (configuration {})", n, names(&shadow)),
                    ));
                }
            }
            Ev::Exit(_, n) => {
                if *n == root_name {
                    continue;
                }
                stats.exits += 1;
                let i = idx_of(n).ok_or(("unknown-state-exited".to_string(), format!("EXIT of undeclared state {}", n)))?;
                if !shadow.remove(&i) {
                    return Err((
                        "exit-while-inactive".into(),
                        format!("state {} exited while not active (configuration {})", n, names(&shadow)),
                    ));
                }
                last_exit = Some(i);
            }
            Ev::Enabled(ids) => {
                if !ids.is_empty() {
                    last_enabled = ids.iter().filter_map(|i| info.trans_uid.get(i).cloned()).collect();
                }
            }
            Ev::XRecv(ev) => {
                if ev.name == crate::refsim::CANCEL {
                    terminating = true;
                }
            }
            Ev::MOut(m) if m == "exitStates" => {
                last_exit = None;
            }
            Ev::Config(whr, ids) => {
                let real = map_ids(ids)?;
                stats.quiescent_samples += 1;
                if real != shadow {
                    return Err((
                        "configuration-differs-from-trace".into(),
                        format!(
                            "at {} the real configuration {{{}}} differs from the entered/exited states {{{}}}",
                            whr,
                            names(&real),
                            names(&shadow)
                        ),
                    ));
                }
                if let Err(why) = legal(f, &real) {
                    return Err(("illegal-configuration".into(), format!("at {}: configuration {{{}}} is illegal: {}", whr, names(&real), why)));
                }
                let key = names(&real);
                if real.iter().any(|&s| f.is_parallel(s)) {
                    stats.configs_with_parallel += 1;
                }
                if stats.distinct_configs.len() < 100000 {
                    stats.distinct_configs.insert(key);
                }
                // a top-level final in the configuration means the session is about to terminate
                if real.iter().any(|&s| f.is_final(s) && f.s[s].parent == Some(0)) {
                    terminating = true;
                }
            }
            Ev::Mark { config, .. } => {
                stats.mark_samples += 1;
                let real = map_ids(config)?;
                if shadow.iter().any(|&s| f.is_final(s) && f.s[s].parent == Some(0)) {
                    terminating = true;
                }
                if terminating {
                    if !real.is_subset(&shadow) {
                        return Err((
                            "configuration-grows-during-termination".into(),
                            format!("while terminating the configuration {{{}}} is not a subset of {{{}}}", names(&real), names(&shadow)),
                        ));
                    }
                } else {
                    let mut alt = shadow.clone();
                    if let Some(x) = last_exit {
                        alt.insert(x);
                    }
                    if real != shadow && real != alt {
                        return Err((
                            "configuration-differs-from-trace-mid-step".into(),
                            format!(
                                "inside a microstep the real configuration {{{}}} is neither {{{}}} nor that plus the state being exited",
                                names(&real),
                                names(&shadow)
                            ),
                        ));
                    }
                }
            }
            Ev::Trace(t) if t == "config-sample-skipped" => stats.skipped_samples += 1,
            _ => {}
        }
    }
    // reported final configuration
    if let Some(fc) = &res.final_configuration {
        if crate::rec::is_finished(res.tracer) || true {
            let mut rep: BTreeSet<usize> = BTreeSet::new();
            for n in fc {
                if *n == root_name {
                    continue;
                }
                match idx_of(n) {
                    Some(i) => {
                        rep.insert(i);
                    }
                    None => return Err(("unknown-state-in-final-configuration".into(), format!("final configuration names undeclared state {}", n))),
                }
            }
            if matches!(res.status, crate::session::RunStatus::Completed) && rep != shadow {
                return Err((
                    "final-configuration-differs".into(),
                    format!("reported final configuration {{{}}} differs from the last configuration {{{}}}", names(&rep), names(&shadow)),
                ));
            }
        }
    }
    Ok(())
}
