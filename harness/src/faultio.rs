//! Fault-injecting byte streams for the serializer checks.
use std::io::{Error, ErrorKind, Read, Result, Write};

/// returns the data in chunks of at most `chunk` bytes (a `Read` may always return short)
pub struct ChunkReader<'a> {
    pub data: &'a [u8],
    pub pos: usize,
    pub chunk: usize,
    pub vary: Option<crate::rng::Rng>,
}

impl<'a> Read for ChunkReader<'a> {
    fn read(&mut self, buf: &mut [u8]) -> Result<usize> {
        let left = self.data.len() - self.pos;
        let mut n = left.min(buf.len()).min(self.chunk);
        if let Some(r) = &mut self.vary {
            if n > 1 {
                n = 1 + r.below(n);
            }
        }
        buf[..n].copy_from_slice(&self.data[self.pos..self.pos + n]);
        self.pos += n;
        Ok(n)
    }
}

#[derive(Clone, Copy, Debug, PartialEq)]
pub enum WriteFault {
    None,
    /// Err(Other) at write call #i (0-based, counting write and flush calls)
    FailAt(usize),
    /// from call #i on accept at most c bytes per call
    ShortFrom(usize, usize),
    /// ErrorKind::Interrupted once at call #i
    InterruptAt(usize),
    /// error only on flush
    FailFlush,
}

pub struct FaultSink {
    pub data: Vec<u8>,
    pub calls: usize,
    pub fault: WriteFault,
    pub interrupted_done: bool,
    pub faults_injected: usize,
}

impl FaultSink {
    pub fn new(fault: WriteFault) -> FaultSink {
        FaultSink {
            data: Vec::new(),
            calls: 0,
            fault,
            interrupted_done: false,
            faults_injected: 0,
        }
    }
}

impl Write for FaultSink {
    fn write(&mut self, buf: &[u8]) -> Result<usize> {
        let call = self.calls;
        self.calls += 1;
        match self.fault {
            WriteFault::FailAt(i) if call == i => {
                self.faults_injected += 1;
                Err(Error::new(ErrorKind::Other, "injected write failure"))
            }
            WriteFault::InterruptAt(i) if call == i && !self.interrupted_done => {
                self.interrupted_done = true;
                self.faults_injected += 1;
                Err(Error::new(ErrorKind::Interrupted, "injected EINTR"))
            }
            WriteFault::ShortFrom(i, c) if call >= i && buf.len() > c => {
                self.faults_injected += 1;
                self.data.extend_from_slice(&buf[..c]);
                Ok(c)
            }
            _ => {
                self.data.extend_from_slice(buf);
                Ok(buf.len())
            }
        }
    }
    fn flush(&mut self) -> Result<()> {
        self.calls += 1;
        if self.fault == WriteFault::FailFlush {
            self.faults_injected += 1;
            return Err(Error::new(ErrorKind::Other, "injected flush failure"));
        }
        Ok(())
    }
}
