#!/bin/bash
# Confirms a sub-agent's demonstration in its scratch worktree: with the patch the example must fail, without it pass.
#   tools/confirm_demo.sh <worktree> <patch.diff> <example-name> [features]
set -u
WT="$1"; PATCH="$2"; EX="$3"; FEAT="${4:-}"
cd "$WT" || exit 3
git checkout -q -- src 2>/dev/null
git apply "$PATCH" || { echo PATCH-DOES-NOT-APPLY; exit 3; }
CARGO_NET_OFFLINE=true timeout 900 cargo run --offline --example "$EX" $FEAT >/tmp/demo_with.txt 2>&1; W=$?
git checkout -q -- src
CARGO_NET_OFFLINE=true timeout 900 cargo run --offline --example "$EX" $FEAT >/tmp/demo_without.txt 2>&1; WO=$?
echo "with-patch exit=$W  without-patch exit=$WO"
