//! Reference semantics of rfsm-expressions (written from src/expression_engine/README.md and the
//! statement of property C10, not from the implementation): own AST, own value type, own
//! precedence table, left-to-right grouping, renderer with minimal parentheses, typed generator.

use crate::rng::Rng;
use rufsm::datamodel::{create_data_arc, Data, DataArc};
use std::collections::BTreeMap;

#[derive(Clone, Debug)]
pub enum V {
    Int(i64),
    Dbl(f64),
    Str(String),
    Bool(bool),
    Null,
    Arr(Vec<V>),
    Map(BTreeMap<String, V>),
    NoneV,
}

impl V {
    /// strict identity of results (type matters; doubles by value, NaN equals NaN)
    pub fn same(&self, o: &V) -> bool {
        match (self, o) {
            (V::Int(a), V::Int(b)) => a == b,
            (V::Dbl(a), V::Dbl(b)) => (a.is_nan() && b.is_nan()) || a == b,
            (V::Str(a), V::Str(b)) => a == b,
            (V::Bool(a), V::Bool(b)) => a == b,
            (V::Null, V::Null) => true,
            (V::NoneV, V::NoneV) => true,
            (V::Arr(a), V::Arr(b)) => a.len() == b.len() && a.iter().zip(b.iter()).all(|(x, y)| x.same(y)),
            (V::Map(a), V::Map(b)) => {
                a.len() == b.len() && a.iter().all(|(k, v)| b.get(k).map(|w| v.same(w)).unwrap_or(false))
            }
            _ => false,
        }
    }
    /// the language's `==`
    pub fn lang_eq(&self, o: &V) -> bool {
        match (self, o) {
            (V::Int(a), V::Int(b)) => a == b,
            (V::Dbl(a), V::Dbl(b)) => a == b,
            (V::Int(a), V::Dbl(b)) => (*a as f64) == *b,
            (V::Dbl(a), V::Int(b)) => *a == (*b as f64),
            (V::Str(a), V::Str(b)) => a == b,
            (V::Bool(a), V::Bool(b)) => a == b,
            (V::Null, V::Null) => true,
            (V::Arr(a), V::Arr(b)) => a.len() == b.len() && a.iter().zip(b.iter()).all(|(x, y)| x.lang_eq(y)),
            (V::Map(a), V::Map(b)) => {
                a.len() == b.len() && a.iter().all(|(k, v)| b.get(k).map(|w| v.lang_eq(w)).unwrap_or(false))
            }
            _ => false,
        }
    }
    pub fn ty(&self) -> Ty {
        match self {
            V::Int(_) => Ty::Int,
            V::Dbl(_) => Ty::Dbl,
            V::Str(_) => Ty::Str,
            V::Bool(_) => Ty::Bool,
            V::Arr(_) => Ty::Arr,
            V::Map(_) => Ty::Map,
            V::Null | V::NoneV => Ty::Null,
        }
    }
    pub fn show(&self) -> String {
        match self {
            V::Int(i) => format!("Int({})", i),
            V::Dbl(d) => format!("Dbl({:?})", d),
            V::Str(s) => format!("Str({:?})", s),
            V::Bool(b) => format!("Bool({})", b),
            V::Null => "Null".to_string(),
            V::NoneV => "None".to_string(),
            V::Arr(a) => format!("[{}]", a.iter().map(|x| x.show()).collect::<Vec<_>>().join(",")),
            V::Map(m) => format!(
                "{{{}}}",
                m.iter().map(|(k, v)| format!("{:?}:{}", k, v.show())).collect::<Vec<_>>().join(",")
            ),
        }
    }
    pub fn to_data(&self) -> Data {
        match self {
            V::Int(i) => Data::Integer(*i),
            V::Dbl(d) => Data::Double(*d),
            V::Str(s) => Data::String(s.clone()),
            V::Bool(b) => Data::Boolean(*b),
            V::Null => Data::Null(),
            V::NoneV => Data::None(),
            V::Arr(a) => Data::Array(a.iter().map(|x| create_data_arc(x.to_data())).collect()),
            V::Map(m) => Data::Map(m.iter().map(|(k, v)| (k.clone(), create_data_arc(v.to_data()))).collect()),
        }
    }
    /// Err(msg) if the value is or contains Data::Error
    pub fn from_data(d: &Data) -> Result<V, String> {
        Ok(match d {
            Data::Integer(i) => V::Int(*i),
            Data::Double(d) => V::Dbl(*d),
            Data::String(s) => V::Str(s.clone()),
            Data::Boolean(b) => V::Bool(*b),
            Data::Null() => V::Null,
            Data::None() => V::NoneV,
            Data::Source(s) => V::Str(s.source.clone()),
            Data::Error(e) => return Err(e.clone()),
            Data::Array(a) => {
                let mut v = Vec::new();
                for x in a {
                    v.push(V::from_arc(x)?);
                }
                V::Arr(v)
            }
            Data::Map(m) => {
                let mut r = BTreeMap::new();
                for (k, x) in m {
                    r.insert(k.clone(), V::from_arc(x)?);
                }
                V::Map(r)
            }
        })
    }
    pub fn from_arc(a: &DataArc) -> Result<V, String> {
        match a.arc.try_lock() {
            Ok(g) => V::from_data(&g),
            Err(_) => Err("<locked>".to_string()),
        }
    }
}

#[derive(Clone, Copy, Debug, PartialEq, Eq, Hash)]
pub enum Ty {
    Int,
    Dbl,
    Str,
    Bool,
    Arr,
    Map,
    Null,
}

#[derive(Clone, Copy, Debug, PartialEq, Eq, Hash)]
pub enum Op {
    Mul,
    Div,
    Mod,
    And,
    Add,
    Sub,
    Or,
    Lt,
    Le,
    Gt,
    Ge,
    Eq,
    Ne,
}

pub const ALL_OPS: [Op; 13] = [
    Op::Mul,
    Op::Div,
    Op::Mod,
    Op::And,
    Op::Add,
    Op::Sub,
    Op::Or,
    Op::Lt,
    Op::Le,
    Op::Gt,
    Op::Ge,
    Op::Eq,
    Op::Ne,
];

impl Op {
    /// smaller binds tighter. member/index 2 > '!' 3 > '* / % &' 5 > '+ - |' 6 > relational 9 > equality 10 > assignment 16
    pub fn prec(self) -> u8 {
        match self {
            Op::Mul | Op::Div | Op::Mod | Op::And => 5,
            Op::Add | Op::Sub | Op::Or => 6,
            Op::Lt | Op::Le | Op::Gt | Op::Ge => 9,
            Op::Eq | Op::Ne => 10,
        }
    }
    pub fn text(self) -> &'static str {
        match self {
            Op::Mul => "*",
            Op::Div => "/",
            Op::Mod => "%",
            Op::And => "&",
            Op::Add => "+",
            Op::Sub => "-",
            Op::Or => "|",
            Op::Lt => "<",
            Op::Le => "<=",
            Op::Gt => ">",
            Op::Ge => ">=",
            Op::Eq => "==",
            Op::Ne => "!=",
        }
    }
}

#[derive(Clone, Debug)]
pub enum E {
    Lit(V),
    ArrLit(Vec<E>),
    MapLit(Vec<(String, E)>),
    Var(String),
    Bin(Op, Box<E>, Box<E>),
    Not(Box<E>),
    Member(Box<E>, String),
    Index(Box<E>, Box<E>),
    Call(String, Vec<E>),
    MCall(Box<E>, String, Vec<E>),
    /// (lvalue, value, create-if-undefined)
    Assign(Box<E>, Box<E>, bool),
    Seq(Vec<E>),
    /// redundant parentheses – no meaning
    Paren(Box<E>),
}

pub enum Out {
    Val(V),
    /// the language defines an error here
    Error(String),
    /// the documentation does not fix the meaning – no verdict
    Unspec(String),
}

pub type Store = BTreeMap<String, V>;

pub const READONLY_VAR: &str = "ro";

pub fn default_store() -> Store {
    let mut s = Store::new();
    s.insert("vi".into(), V::Int(7));
    s.insert("vj".into(), V::Int(-3));
    s.insert("vd".into(), V::Dbl(2.5));
    s.insert("vs".into(), V::Str("hello".into()));
    s.insert("vb".into(), V::Bool(true));
    s.insert("va".into(), V::Arr(vec![V::Int(1), V::Int(2), V::Int(3)]));
    let mut m = BTreeMap::new();
    m.insert("a".to_string(), V::Int(1));
    m.insert("b".to_string(), V::Str("x".into()));
    m.insert("k".to_string(), V::Arr(vec![V::Int(4), V::Int(5)]));
    let mut inner = BTreeMap::new();
    inner.insert("z".to_string(), V::Int(9));
    m.insert("in".to_string(), V::Map(inner));
    s.insert("vm".into(), V::Map(m));
    s.insert(READONLY_VAR.into(), V::Int(1));
    s
}

macro_rules! val {
    ($e:expr) => {
        match $e {
            Out::Val(v) => v,
            o => return o,
        }
    };
}

fn num(v: &V) -> Option<f64> {
    match v {
        V::Int(i) => Some(*i as f64),
        V::Dbl(d) => Some(*d),
        _ => None,
    }
}

pub fn bin(op: Op, l: &V, r: &V) -> Out {
    use Op::*;
    match op {
        Add | Sub | Mul | Mod | Div => {
            match (l, r) {
                (V::Int(a), V::Int(b)) => {
                    return match op {
                        Add => Out::Val(V::Int(a.saturating_add(*b))),
                        Sub => Out::Val(V::Int(a.saturating_sub(*b))),
                        Mul => Out::Val(V::Int(a.saturating_mul(*b))),
                        Mod => {
                            if *b == 0 || (*a == i64::MIN && *b == -1) {
                                Out::Unspec("integer remainder by zero / overflow".into())
                            } else {
                                Out::Val(V::Int(a % b))
                            }
                        }
                        _ => {
                            if *b == 0 {
                                Out::Unspec("division by zero".into())
                            } else {
                                Out::Val(V::Dbl((*a as f64) / (*b as f64)))
                            }
                        }
                    }
                }
                _ => {}
            }
            if let (Some(a), Some(b)) = (num(l), num(r)) {
                let res = match op {
                    Add => a + b,
                    Sub => a - b,
                    Mul => a * b,
                    Mod => {
                        if b == 0.0 {
                            return Out::Unspec("remainder by zero".into());
                        }
                        a % b
                    }
                    _ => {
                        if b == 0.0 {
                            return Out::Unspec("division by zero".into());
                        }
                        a / b
                    }
                };
                if res.is_nan() || res.is_infinite() {
                    return Out::Unspec("non-finite double".into());
                }
                return Out::Val(V::Dbl(res));
            }
            if op == Add {
                return match (l, r) {
                    (V::Str(a), V::Str(b)) => Out::Val(V::Str(format!("{}{}", a, b))),
                    (V::Arr(a), V::Arr(b)) => {
                        let mut x = a.clone();
                        x.extend(b.iter().cloned());
                        Out::Val(V::Arr(x))
                    }
                    (V::Arr(a), V::Null) | (V::Arr(a), V::NoneV) => {
                        let _ = a;
                        Out::Unspec("array + null".into())
                    }
                    (V::Arr(a), x) => {
                        let mut y = a.clone();
                        y.push(x.clone());
                        Out::Val(V::Arr(y))
                    }
                    (V::Map(a), V::Map(b)) => {
                        let mut x = a.clone();
                        for (k, v) in b {
                            x.insert(k.clone(), v.clone());
                        }
                        Out::Val(V::Map(x))
                    }
                    _ => Out::Unspec("'+' on these types".into()),
                };
            }
            Out::Unspec("arithmetic on non-numbers".into())
        }
        And | Or => match (l, r) {
            (V::Bool(a), V::Bool(b)) => Out::Val(V::Bool(if op == And { *a && *b } else { *a || *b })),
            _ => Out::Unspec("logic on non-booleans".into()),
        },
        Lt | Le | Gt | Ge => {
            let ord = match (l, r) {
                (V::Int(a), V::Int(b)) => a.partial_cmp(b),
                (V::Str(a), V::Str(b)) => a.partial_cmp(b),
                _ => match (num(l), num(r)) {
                    (Some(a), Some(b)) => a.partial_cmp(&b),
                    _ => return Out::Unspec("comparison on these types".into()),
                },
            };
            match ord {
                None => Out::Unspec("unordered".into()),
                Some(o) => Out::Val(V::Bool(match op {
                    Lt => o.is_lt(),
                    Le => o.is_le(),
                    Gt => o.is_gt(),
                    _ => o.is_ge(),
                })),
            }
        }
        Eq => Out::Val(V::Bool(l.lang_eq(r))),
        Ne => Out::Val(V::Bool(!l.lang_eq(r))),
    }
}

fn to_text(v: &V) -> Option<String> {
    Some(match v {
        V::Int(i) => i.to_string(),
        V::Dbl(d) => d.to_string(),
        V::Str(s) => s.clone(),
        V::Bool(b) => b.to_string(),
        V::Arr(a) => {
            let mut parts = Vec::new();
            for x in a {
                parts.push(to_text(x)?);
            }
            parts.join(",")
        }
        _ => return None,
    })
}

fn call(name: &str, args: &[V]) -> Out {
    match (name, args) {
        ("length", [V::Str(s)]) => {
            if s.is_ascii() {
                Out::Val(V::Int(s.len() as i64))
            } else {
                Out::Unspec("length of non-ascii".into())
            }
        }
        ("length", [V::Arr(a)]) => Out::Val(V::Int(a.len() as i64)),
        ("length", [V::Map(a)]) => Out::Val(V::Int(a.len() as i64)),
        ("abs", [V::Int(i)]) => {
            if *i == i64::MIN {
                Out::Unspec("abs(min)".into())
            } else {
                Out::Val(V::Int(i.abs()))
            }
        }
        ("abs", [V::Dbl(d)]) => Out::Val(V::Dbl(d.abs())),
        ("indexOf", [V::Str(a), V::Str(b)]) => {
            if a.is_ascii() && b.is_ascii() {
                Out::Val(V::Int(a.find(b.as_str()).map(|x| x as i64).unwrap_or(-1)))
            } else {
                Out::Unspec("indexOf non-ascii".into())
            }
        }
        ("toString", [v]) => match to_text(v) {
            Some(t) => Out::Val(V::Str(t)),
            None => Out::Unspec("toString of map/null".into()),
        },
        ("isDefined", [V::NoneV]) => Out::Val(V::Bool(false)),
        ("isDefined", [_]) => Out::Val(V::Bool(true)),
        _ => Out::Unspec(format!("call {}", name)),
    }
}

/// resolve an lvalue to a mutable slot; create = `?=` semantics
fn slot<'a>(e: &E, store: &'a mut Store, create: bool) -> Result<&'a mut V, Out> {
    match e {
        E::Paren(x) => slot(x, store, create),
        E::Var(n) => {
            if !store.contains_key(n) {
                if create {
                    store.insert(n.clone(), V::NoneV);
                } else {
                    return Err(Out::Error(format!("variable {} undefined", n)));
                }
            }
            Ok(store.get_mut(n).unwrap())
        }
        E::Member(b, name) => {
            let base = slot(b, store, create)?;
            match base {
                V::Map(m) => {
                    if !m.contains_key(name) {
                        if create {
                            m.insert(name.clone(), V::NoneV);
                        } else {
                            return Err(Out::Error("member undefined".into()));
                        }
                    }
                    Ok(m.get_mut(name).unwrap())
                }
                _ => Err(Out::Error("member of non-map".into())),
            }
        }
        E::Index(b, i) => {
            // index expressions in lvalues are literals in generated code
            let iv = match &**i {
                E::Lit(v) => v.clone(),
                E::Paren(p) => match &**p {
                    E::Lit(v) => v.clone(),
                    _ => return Err(Out::Unspec("computed index in lvalue".into())),
                },
                _ => return Err(Out::Unspec("computed index in lvalue".into())),
            };
            let base = slot(b, store, create)?;
            match (base, iv) {
                (V::Arr(a), V::Int(ix)) => {
                    if ix >= 0 && (ix as usize) < a.len() {
                        Ok(&mut a[ix as usize])
                    } else {
                        Err(Out::Error("index out of range".into()))
                    }
                }
                (V::Map(m), V::Str(k)) => {
                    if !m.contains_key(&k) {
                        if create {
                            m.insert(k.clone(), V::NoneV);
                        } else {
                            return Err(Out::Error("key undefined".into()));
                        }
                    }
                    Ok(m.get_mut(&k).unwrap())
                }
                _ => Err(Out::Unspec("index kind".into())),
            }
        }
        _ => Err(Out::Error("not assignable".into())),
    }
}

fn root_var(e: &E) -> Option<&str> {
    match e {
        E::Var(n) => Some(n),
        E::Member(b, _) | E::Index(b, _) => root_var(b),
        E::Paren(x) => root_var(x),
        _ => None,
    }
}

pub fn mentions_var(e: &E, name: &str) -> bool {
    match e {
        E::Var(n) => n == name,
        E::Lit(_) => false,
        E::ArrLit(i) | E::Call(_, i) | E::Seq(i) => i.iter().any(|x| mentions_var(x, name)),
        E::MapLit(i) => i.iter().any(|(_, x)| mentions_var(x, name)),
        E::Bin(_, l, r) | E::Index(l, r) | E::Assign(l, r, _) => mentions_var(l, name) || mentions_var(r, name),
        E::Not(x) | E::Member(x, _) | E::Paren(x) => mentions_var(x, name),
        E::MCall(x, _, a) => mentions_var(x, name) || a.iter().any(|y| mentions_var(y, name)),
    }
}

pub fn eval(e: &E, store: &mut Store) -> Out {
    match e {
        E::Lit(v) => Out::Val(v.clone()),
        E::Paren(x) => eval(x, store),
        E::ArrLit(items) => {
            let mut r = Vec::new();
            for i in items {
                r.push(val!(eval(i, store)));
            }
            Out::Val(V::Arr(r))
        }
        E::MapLit(items) => {
            let mut r = BTreeMap::new();
            for (k, i) in items {
                let v = val!(eval(i, store));
                r.insert(k.clone(), v);
            }
            Out::Val(V::Map(r))
        }
        E::Var(n) => match store.get(n) {
            Some(v) => Out::Val(v.clone()),
            None => Out::Error(format!("variable {} undefined", n)),
        },
        E::Bin(op, l, r) => {
            let lv = val!(eval(l, store));
            let rv = val!(eval(r, store));
            bin(*op, &lv, &rv)
        }
        E::Not(x) => match val!(eval(x, store)) {
            V::Bool(b) => Out::Val(V::Bool(!b)),
            _ => Out::Unspec("! on non-boolean".into()),
        },
        E::Member(b, name) => match val!(eval(b, store)) {
            V::Map(m) => match m.get(name) {
                Some(v) => Out::Val(v.clone()),
                None => Out::Error("member undefined".into()),
            },
            _ => Out::Error("member of non-map".into()),
        },
        E::Index(b, i) => {
            let bv = val!(eval(b, store));
            let iv = val!(eval(i, store));
            match (bv, iv) {
                (V::Arr(a), V::Int(ix)) => {
                    if ix >= 0 && (ix as usize) < a.len() {
                        Out::Val(a[ix as usize].clone())
                    } else if ix < 0 {
                        Out::Unspec("negative index".into())
                    } else {
                        Out::Error("index out of range".into())
                    }
                }
                (V::Map(m), V::Str(k)) => match m.get(&k) {
                    Some(v) => Out::Val(v.clone()),
                    None => Out::Error("key undefined".into()),
                },
                (V::Map(m), V::Bool(b)) => match m.get(&b.to_string()) {
                    // README: {true:'a', false:'b'}[cond]
                    Some(v) => Out::Val(v.clone()),
                    None => Out::Error("key undefined".into()),
                },
                _ => Out::Unspec("index kind".into()),
            }
        }
        E::Call(name, args) => {
            let mut vs = Vec::new();
            for a in args {
                match eval(a, store) {
                    Out::Val(v) => vs.push(v),
                    Out::Error(_) if name == "isDefined" => vs.push(V::NoneV),
                    o => return o,
                }
            }
            call(name, &vs)
        }
        E::MCall(recv, name, args) => {
            let mut vs = vec![val!(eval(recv, store))];
            for a in args {
                vs.push(val!(eval(a, store)));
            }
            call(name, &vs)
        }
        E::Assign(l, r, create) => {
            if let (Some(a), Some(b)) = (root_var(l), root_var(r)) {
                if a == b {
                    return Out::Unspec("aliasing assignment".into());
                }
            }
            let rv = val!(eval(r, store));
            if let V::NoneV = rv {
                return Out::Unspec("assign none".into());
            }
            // array / map literals keep references to the variables they mention; whether an
            // assignment copies or shares is not documented → no verdict when the target occurs
            // inside a compound right-hand side (C11 looks at those for termination only)
            if let Some(root) = root_var(l) {
                if matches!(rv, V::Arr(_) | V::Map(_)) && mentions_var(r, root) {
                    return Out::Unspec("compound value mentioning the assignment target".into());
                }
            }
            if root_var(l) == Some(READONLY_VAR) {
                return if *create {
                    Out::Unspec("?= on read-only".into())
                } else {
                    Out::Error("read-only".into())
                };
            }
            match slot(l, store, *create) {
                Ok(s) => {
                    *s = rv.clone();
                    Out::Val(rv)
                }
                Err(o) => o,
            }
        }
        E::Seq(items) => {
            let mut last = Out::Val(V::NoneV);
            for i in items {
                last = eval(i, store);
                if let Out::Val(_) = last {
                } else {
                    // README does not say whether later expressions still run after an error
                    return match last {
                        Out::Error(m) => Out::Unspec(format!("error inside sequence: {}", m)),
                        o => o,
                    };
                }
            }
            last
        }
    }
}

// ---------------------------------------------------------------------------------------------
// Rendering

fn str_lit(s: &str, alt_quote: bool) -> String {
    let has_single = s.contains('\'');
    let q = if has_single || alt_quote { '"' } else { '\'' };
    let mut r = String::new();
    r.push(q);
    for c in s.chars() {
        match c {
            '\\' => r.push_str("\\\\"),
            '"' if q == '"' => r.push_str("\\\""),
            '\n' => r.push_str("\\n"),
            '\t' => r.push_str("\\t"),
            '\r' => r.push_str("\\r"),
            c if (c as u32) < 0x20 => r.push_str(&format!("\\u{:04}", c as u32)),
            c => r.push(c),
        }
    }
    r.push(q);
    r
}

pub fn lit(v: &V) -> String {
    match v {
        V::Int(i) => i.to_string(),
        V::Dbl(d) => format!("{:?}", d),
        V::Str(s) => str_lit(s, false),
        V::Bool(b) => b.to_string(),
        V::Null | V::NoneV => "null".to_string(),
        V::Arr(a) => format!("[{}]", a.iter().map(lit).collect::<Vec<_>>().join(", ")),
        V::Map(m) => format!(
            "{{{}}}",
            m.iter().map(|(k, v)| format!("{}: {}", str_lit(k, false), lit(v))).collect::<Vec<_>>().join(", ")
        ),
    }
}

/// Token stream with the positions where at least one blank is mandatory.
#[derive(Default)]
pub struct Toks {
    pub t: Vec<String>,
    /// t[i] must be followed by whitespace
    pub need_space_after: Vec<bool>,
}

impl Toks {
    fn push(&mut self, s: &str) {
        self.t.push(s.to_string());
        self.need_space_after.push(false);
    }
    fn push_sp(&mut self, s: &str) {
        self.t.push(s.to_string());
        self.need_space_after.push(true);
    }
    pub fn canonical(&self) -> String {
        let mut r = String::new();
        for (i, t) in self.t.iter().enumerate() {
            r.push_str(t);
            if self.need_space_after[i] {
                r.push(' ');
            }
        }
        r
    }
    /// metamorphic variant: extra whitespace between tokens (never removes a mandatory one)
    pub fn spaced(&self, rng: &mut Rng) -> String {
        let ws = [" ", "  ", "\t", "\n", " \n "];
        let mut r = String::new();
        if rng.chance(1, 3) {
            r.push_str(ws[rng.below(ws.len())]);
        }
        for (i, t) in self.t.iter().enumerate() {
            r.push_str(t);
            if self.need_space_after[i] {
                r.push(' ');
            }
            if rng.chance(1, 2) {
                r.push_str(ws[rng.below(ws.len())]);
            }
        }
        r
    }
}

fn prec_of(e: &E) -> u8 {
    match e {
        E::Bin(op, _, _) => op.prec(),
        E::Not(_) => 3,
        E::Assign(..) => 16,
        E::Seq(_) => 20,
        _ => 0,
    }
}

fn is_neg_literal(e: &E) -> bool {
    matches!(e, E::Lit(V::Int(i)) if *i < 0) || matches!(e, E::Lit(V::Dbl(d)) if *d < 0.0 || (*d == 0.0 && d.is_sign_negative()))
}

pub struct RenderOpts {
    /// render Div as ':' instead of '/'
    pub colon_div: bool,
}

fn paren(e: &E, o: &RenderOpts, t: &mut Toks) {
    t.push("(");
    render_into(e, o, t);
    t.push(")");
}

/// postfix base (before '.', '[') must be a primary that is not a number literal
fn render_postfix_base(e: &E, o: &RenderOpts, t: &mut Toks) {
    let simple = matches!(
        e,
        E::Var(_) | E::Member(..) | E::Index(..) | E::Call(..) | E::MCall(..) | E::Paren(_) | E::MapLit(_) | E::ArrLit(_)
    ) || matches!(e, E::Lit(V::Str(_)));
    if simple {
        render_into(e, o, t);
    } else {
        paren(e, o, t);
    }
}

pub fn render_into(e: &E, o: &RenderOpts, t: &mut Toks) {
    match e {
        E::Lit(v) => t.push(&lit(v)),
        E::Paren(x) => paren(x, o, t),
        E::ArrLit(items) => {
            t.push("[");
            for (i, x) in items.iter().enumerate() {
                if i > 0 {
                    t.push(",");
                }
                render_into(x, o, t);
            }
            t.push("]");
        }
        E::MapLit(items) => {
            t.push("{");
            for (i, (k, x)) in items.iter().enumerate() {
                if i > 0 {
                    t.push(",");
                }
                t.push(&str_lit(k, false));
                t.push(":");
                render_into(x, o, t);
            }
            t.push("}");
        }
        E::Var(n) => t.push(n),
        E::Bin(op, l, r) => {
            // left-to-right grouping: a left child of equal precedence needs no parentheses,
            // a right child of equal precedence does.
            if prec_of(l) > op.prec() {
                paren(l, o, t);
            } else {
                render_into(l, o, t);
            }
            t.push(" ");
            let txt = if *op == Op::Div && o.colon_div { ":" } else { op.text() };
            t.push_sp(txt);
            if prec_of(r) >= op.prec() {
                paren(r, o, t);
            } else {
                render_into(r, o, t);
            }
        }
        E::Not(x) => {
            t.push("!");
            if prec_of(x) > 3 || is_neg_literal(x) {
                paren(x, o, t);
            } else {
                render_into(x, o, t);
            }
        }
        E::Member(b, name) => {
            render_postfix_base(b, o, t);
            t.push(".");
            t.push(name);
        }
        E::Index(b, i) => {
            render_postfix_base(b, o, t);
            t.push("[");
            render_into(i, o, t);
            t.push("]");
        }
        E::Call(name, args) => {
            t.push(name);
            t.push("(");
            for (i, x) in args.iter().enumerate() {
                if i > 0 {
                    t.push(",");
                }
                render_into(x, o, t);
            }
            t.push(")");
        }
        E::MCall(recv, name, args) => {
            render_postfix_base(recv, o, t);
            t.push(".");
            t.push(name);
            t.push("(");
            for (i, x) in args.iter().enumerate() {
                if i > 0 {
                    t.push(",");
                }
                render_into(x, o, t);
            }
            t.push(")");
        }
        E::Assign(l, r, create) => {
            render_into(l, o, t);
            t.push(" ");
            t.push_sp(if *create { "?=" } else { "=" });
            if prec_of(r) >= 16 {
                paren(r, o, t);
            } else {
                render_into(r, o, t);
            }
        }
        E::Seq(items) => {
            for (i, x) in items.iter().enumerate() {
                if i > 0 {
                    t.push_sp(";");
                }
                render_into(x, o, t);
            }
        }
    }
}

pub fn contains_map_lit(e: &E) -> bool {
    match e {
        E::MapLit(_) => true,
        E::Lit(V::Map(_)) => true,
        E::Lit(V::Arr(a)) => a.iter().any(|x| matches!(x, V::Map(_))),
        E::Lit(_) | E::Var(_) => false,
        E::ArrLit(i) | E::Call(_, i) | E::Seq(i) => i.iter().any(contains_map_lit),
        E::Bin(_, l, r) | E::Index(l, r) | E::Assign(l, r, _) => contains_map_lit(l) || contains_map_lit(r),
        E::Not(x) | E::Member(x, _) | E::Paren(x) => contains_map_lit(x),
        E::MCall(x, _, a) => contains_map_lit(x) || a.iter().any(contains_map_lit),
    }
}

pub fn render(e: &E) -> Toks {
    let mut t = Toks::default();
    render_into(e, &RenderOpts { colon_div: false }, &mut t);
    t
}

pub fn render_colon(e: &E) -> Toks {
    let mut t = Toks::default();
    render_into(e, &RenderOpts { colon_div: !contains_map_lit(e) }, &mut t);
    t
}

/// adds redundant parentheses around random sub-expressions (not around lvalues, callee names)
pub fn add_parens(e: &E, rng: &mut Rng, p_num: u32) -> E {
    let wrap = |x: E, rng: &mut Rng| -> E {
        if rng.chance(p_num, 8) {
            E::Paren(Box::new(x))
        } else {
            x
        }
    };
    match e {
        E::Lit(_) | E::Var(_) => wrap(e.clone(), rng),
        E::Paren(x) => E::Paren(Box::new(add_parens(x, rng, p_num))),
        E::ArrLit(i) => wrap(E::ArrLit(i.iter().map(|x| add_parens(x, rng, p_num)).collect()), rng),
        E::MapLit(i) => wrap(E::MapLit(i.iter().map(|(k, x)| (k.clone(), add_parens(x, rng, p_num))).collect()), rng),
        E::Bin(op, l, r) => wrap(
            E::Bin(*op, Box::new(add_parens(l, rng, p_num)), Box::new(add_parens(r, rng, p_num))),
            rng,
        ),
        E::Not(x) => wrap(E::Not(Box::new(add_parens(x, rng, p_num))), rng),
        E::Member(b, n) => wrap(E::Member(Box::new(add_parens(b, rng, p_num)), n.clone()), rng),
        E::Index(b, i) => wrap(
            E::Index(Box::new(add_parens(b, rng, p_num)), Box::new(add_parens(i, rng, p_num))),
            rng,
        ),
        E::Call(n, a) => wrap(E::Call(n.clone(), a.iter().map(|x| add_parens(x, rng, p_num)).collect()), rng),
        E::MCall(x, n, a) => wrap(
            E::MCall(
                Box::new(add_parens(x, rng, p_num)),
                n.clone(),
                a.iter().map(|x| add_parens(x, rng, p_num)).collect(),
            ),
            rng,
        ),
        // lvalue untouched
        E::Assign(l, r, c) => E::Assign(l.clone(), Box::new(add_parens(r, rng, p_num)), *c),
        E::Seq(i) => E::Seq(i.iter().map(|x| add_parens(x, rng, p_num)).collect()),
    }
}

// ---------------------------------------------------------------------------------------------
// Generation

pub fn pool(ty: Ty, rng: &mut Rng) -> E {
    let ints: [i64; 14] = [0, 1, -1, 2, 3, 5, 7, 10, 100, -8, 1 << 40, i64::MAX, i64::MIN, i64::MAX - 1];
    let dbls: [f64; 9] = [0.5, 1.5, -2.25, 2.0, 10.0, 1e10, 1e-3, 100.5, -0.5];
    let strs = ["", "a", "ab", "abc", "b", "hello", "x y", "it's", "A", "é", "日本"];
    match ty {
        Ty::Int => {
            if rng.chance(1, 4) {
                E::Var(if rng.chance(1, 2) { "vi" } else { "vj" }.to_string())
            } else {
                E::Lit(V::Int(*rng.pick(&ints)))
            }
        }
        Ty::Dbl => {
            if rng.chance(1, 5) {
                E::Var("vd".to_string())
            } else {
                E::Lit(V::Dbl(*rng.pick(&dbls)))
            }
        }
        Ty::Str => {
            if rng.chance(1, 5) {
                E::Var("vs".to_string())
            } else {
                E::Lit(V::Str(rng.pick(&strs).to_string()))
            }
        }
        Ty::Bool => {
            if rng.chance(1, 5) {
                E::Var("vb".to_string())
            } else {
                E::Lit(V::Bool(rng.chance(1, 2)))
            }
        }
        Ty::Arr => match rng.below(4) {
            0 => E::Var("va".to_string()),
            1 => E::ArrLit(vec![]),
            2 => E::ArrLit(vec![pool(Ty::Int, rng), pool(Ty::Str, rng)]),
            _ => E::ArrLit(vec![pool(Ty::Int, rng)]),
        },
        Ty::Map => match rng.below(4) {
            0 => E::Var("vm".to_string()),
            1 => E::MapLit(vec![]),
            2 => E::MapLit(vec![("a".into(), pool(Ty::Int, rng)), ("c".into(), pool(Ty::Str, rng))]),
            _ => E::MapLit(vec![("a".into(), pool(Ty::Int, rng))]),
        },
        Ty::Null => E::Lit(V::Null),
    }
}

const VALUE_TYPES: [Ty; 6] = [Ty::Int, Ty::Dbl, Ty::Str, Ty::Bool, Ty::Arr, Ty::Map];

/// Choose child types so that `op` yields `want` (None = any). Returns None if impossible.
fn signature(op: Op, want: Option<Ty>, rng: &mut Rng) -> Option<(Ty, Ty)> {
    use Op::*;
    use Ty::*;
    let numeric_pair = |want: Option<Ty>, rng: &mut Rng| -> Option<(Ty, Ty)> {
        match want {
            Some(Int) => Some((Int, Int)),
            Some(Dbl) => Some(match rng.below(3) {
                0 => (Dbl, Dbl),
                1 => (Int, Dbl),
                _ => (Dbl, Int),
            }),
            None => Some(match rng.below(4) {
                0 => (Int, Int),
                1 => (Dbl, Dbl),
                2 => (Int, Dbl),
                _ => (Dbl, Int),
            }),
            _ => None,
        }
    };
    match op {
        Mul | Sub | Mod => numeric_pair(want, rng),
        Div => match want {
            Some(Dbl) | None => numeric_pair(None, rng),
            _ => None,
        },
        Add => match want {
            Some(Int) | Some(Dbl) => numeric_pair(want, rng),
            Some(Str) => Some((Str, Str)),
            Some(Arr) => Some((Arr, *rng.pick(&[Arr, Int, Str, Bool, Dbl]))),
            Some(Map) => Some((Map, Map)),
            Some(Bool) | Some(Null) => None,
            None => {
                let w = *rng.pick(&[Int, Dbl, Str, Arr, Map]);
                signature(op, Some(w), rng)
            }
        },
        And | Or => match want {
            Some(Bool) | None => Some((Bool, Bool)),
            _ => None,
        },
        Lt | Le | Gt | Ge => match want {
            Some(Bool) | None => {
                if rng.chance(1, 4) {
                    Some((Str, Str))
                } else {
                    numeric_pair(None, rng)
                }
            }
            _ => None,
        },
        Eq | Ne => match want {
            Some(Bool) | None => {
                let a = *rng.pick(&VALUE_TYPES);
                let b = if rng.chance(3, 4) { a } else { *rng.pick(&VALUE_TYPES) };
                Some((a, b))
            }
            _ => None,
        },
    }
}

/// Flat chain `o0 op0 o1 op1 … ` → tree under the reference grouping (precedence, left to right).
pub fn group_chain(operands: Vec<E>, ops: &[Op]) -> E {
    // classic precedence climbing over a flat list
    fn climb(operands: &mut std::collections::VecDeque<E>, ops: &mut std::collections::VecDeque<Op>, min_prec: u8) -> E {
        let mut lhs = operands.pop_front().unwrap();
        loop {
            let op = match ops.front() {
                Some(op) if op.prec() <= min_prec => *op,
                _ => break,
            };
            ops.pop_front();
            // right operand: everything that binds tighter than op
            let rhs = climb(operands, ops, op.prec() - 1);
            lhs = E::Bin(op, Box::new(lhs), Box::new(rhs));
        }
        lhs
    }
    let mut o: std::collections::VecDeque<E> = operands.into();
    let mut p: std::collections::VecDeque<Op> = ops.iter().cloned().collect();
    climb(&mut o, &mut p, 255)
}

/// typed instantiation of the leaves of a tree shape (leaves are placeholders)
fn instantiate(shape: &E, want: Option<Ty>, rng: &mut Rng) -> Option<E> {
    match shape {
        E::Bin(op, l, r) => {
            let (lt, rt) = signature(*op, want, rng)?;
            let le = instantiate(l, Some(lt), rng)?;
            let re = instantiate(r, Some(rt), rng)?;
            Some(E::Bin(*op, Box::new(le), Box::new(re)))
        }
        E::Not(x) => match want {
            Some(Ty::Bool) | None => Some(E::Not(Box::new(instantiate(x, Some(Ty::Bool), rng)?))),
            _ => None,
        },
        _ => {
            let ty = match want {
                Some(t) => t,
                None => *rng.pick(&VALUE_TYPES),
            };
            Some(pool(ty, rng))
        }
    }
}

/// A flat operator chain (with optional '!' on operands) instantiated with well-typed operands.
/// `nots` is a bit mask: bit i set → operand i is negated.
pub fn chain_instance(ops: &[Op], nots: u32, rng: &mut Rng) -> Option<E> {
    let n = ops.len() + 1;
    let mut leaves = Vec::new();
    for i in 0..n {
        let leaf = E::Var("_".into());
        if nots & (1 << i) != 0 {
            leaves.push(E::Not(Box::new(leaf)));
        } else {
            leaves.push(leaf);
        }
    }
    let shape = group_chain(leaves, ops);
    for _ in 0..12 {
        if let Some(e) = instantiate(&shape, None, rng) {
            return Some(e);
        }
    }
    None
}

/// random larger trees with member/index chains, calls and parenthesised sub-trees
pub fn gen_tree(want: Ty, depth: u32, rng: &mut Rng) -> E {
    use Ty::*;
    if depth == 0 || rng.chance(1, 5) {
        return pool(want, rng);
    }
    let d = depth - 1;
    let mut g = |t: Ty, rng: &mut Rng| Box::new(gen_tree(t, d, rng));
    match want {
        Int => match rng.below(9) {
            0 => E::Bin(Op::Add, g(Int, rng), g(Int, rng)),
            1 => E::Bin(Op::Sub, g(Int, rng), g(Int, rng)),
            2 => E::Bin(Op::Mul, g(Int, rng), g(Int, rng)),
            3 => E::Bin(Op::Mod, g(Int, rng), Box::new(E::Lit(V::Int(*rng.pick(&[2, 3, 7, -5]))))),
            4 => E::Call("length".into(), vec![*g(*rng.pick(&[Str, Arr, Map]), rng)]),
            5 => E::MCall(g(*rng.pick(&[Arr, Map]), rng), "length".into(), vec![]),
            6 => E::Index(Box::new(E::Var("va".into())), Box::new(E::Lit(V::Int(rng.range(0, 3))))),
            7 => match rng.below(4) {
                0 => E::Member(Box::new(E::Var("vm".into())), "a".into()),
                1 => E::Member(Box::new(E::Member(Box::new(E::Var("vm".into())), "in".into())), "z".into()),
                2 => E::Index(
                    Box::new(E::Member(Box::new(E::Var("vm".into())), "k".into())),
                    Box::new(E::Lit(V::Int(rng.range(0, 1)))),
                ),
                _ => E::Index(Box::new(E::Var("vm".into())), Box::new(E::Lit(V::Str("a".into())))),
            },
            _ => E::Call("abs".into(), vec![*g(Int, rng)]),
        },
        Dbl => match rng.below(5) {
            0 => E::Bin(*rng.pick(&[Op::Add, Op::Sub, Op::Mul]), g(Dbl, rng), g(Int, rng)),
            1 => E::Bin(*rng.pick(&[Op::Add, Op::Sub, Op::Mul]), g(Int, rng), g(Dbl, rng)),
            2 => E::Bin(Op::Div, g(*rng.pick(&[Int, Dbl]), rng), Box::new(E::Lit(V::Dbl(*rng.pick(&[2.0, 0.5, -4.0]))))),
            3 => E::Bin(Op::Div, g(Int, rng), Box::new(E::Lit(V::Int(*rng.pick(&[2, 3, -7]))))),
            _ => E::Call("abs".into(), vec![*g(Dbl, rng)]),
        },
        Str => match rng.below(4) {
            0 => E::Bin(Op::Add, g(Str, rng), g(Str, rng)),
            1 => E::Call("toString".into(), vec![*g(*rng.pick(&[Int, Str, Bool]), rng)]),
            2 => E::Member(Box::new(E::Var("vm".into())), "b".into()),
            _ => E::Index(
                Box::new(E::MapLit(vec![("true".into(), pool(Str, rng)), ("false".into(), pool(Str, rng))])),
                g(Bool, rng),
            ),
        },
        Bool => match rng.below(8) {
            0 => E::Not(g(Bool, rng)),
            1 => E::Bin(Op::And, g(Bool, rng), g(Bool, rng)),
            2 => E::Bin(Op::Or, g(Bool, rng), g(Bool, rng)),
            3 => {
                let t = *rng.pick(&[Int, Dbl]);
                E::Bin(*rng.pick(&[Op::Lt, Op::Le, Op::Gt, Op::Ge]), g(t, rng), g(*rng.pick(&[Int, Dbl]), rng))
            }
            4 => E::Bin(*rng.pick(&[Op::Lt, Op::Le, Op::Gt, Op::Ge]), g(Str, rng), g(Str, rng)),
            5 => {
                let t = *rng.pick(&VALUE_TYPES);
                E::Bin(*rng.pick(&[Op::Eq, Op::Ne]), g(t, rng), g(t, rng))
            }
            6 => E::Call(
                "isDefined".into(),
                vec![if rng.chance(1, 2) { E::Var("nope".into()) } else { *g(*rng.pick(&VALUE_TYPES), rng) }],
            ),
            _ => E::Bin(Op::Eq, g(Int, rng), g(Dbl, rng)),
        },
        Arr => match rng.below(4) {
            0 => E::Bin(Op::Add, g(Arr, rng), g(Arr, rng)),
            1 => E::Bin(Op::Add, g(Arr, rng), g(*rng.pick(&[Int, Str, Bool]), rng)),
            2 => E::ArrLit(vec![*g(Int, rng), *g(Str, rng)]),
            _ => E::Member(Box::new(E::Var("vm".into())), "k".into()),
        },
        Map => match rng.below(3) {
            0 => E::Bin(Op::Add, g(Map, rng), g(Map, rng)),
            1 => E::MapLit(vec![("p".into(), *g(Int, rng)), ("q".into(), *g(Bool, rng))]),
            _ => E::Member(Box::new(E::Var("vm".into())), "in".into()),
        },
        Null => E::Lit(V::Null),
    }
}

/// assignments followed by a read, as an expression list
pub fn gen_assign(rng: &mut Rng) -> E {
    let ty = *rng.pick(&[Ty::Int, Ty::Dbl, Ty::Str, Ty::Bool, Ty::Arr, Ty::Map]);
    let value = gen_tree(ty, 2, rng);
    match rng.below(8) {
        0 => E::Seq(vec![
            E::Assign(Box::new(E::Var("vi".into())), Box::new(value), false),
            E::Var("vi".into()),
        ]),
        1 => E::Seq(vec![
            E::Assign(Box::new(E::Var("nw".into())), Box::new(value), true),
            E::Var("nw".into()),
        ]),
        2 => E::Assign(Box::new(E::Var("undeclared".into())), Box::new(value), false),
        3 => E::Assign(Box::new(E::Var(READONLY_VAR.into())), Box::new(value), false),
        4 => E::Seq(vec![
            E::Assign(Box::new(E::Member(Box::new(E::Var("vm".into())), "a".into())), Box::new(value), false),
            E::Member(Box::new(E::Var("vm".into())), "a".into()),
        ]),
        5 => E::Seq(vec![
            E::Assign(Box::new(E::Member(Box::new(E::Var("vm".into())), "fresh".into())), Box::new(value), true),
            E::Call("length".into(), vec![E::Var("vm".into())]),
        ]),
        6 => E::Seq(vec![
            E::Assign(
                Box::new(E::Index(Box::new(E::Var("va".into())), Box::new(E::Lit(V::Int(rng.range(0, 2)))))),
                Box::new(value),
                false,
            ),
            E::Var("va".into()),
        ]),
        _ => E::Assign(Box::new(E::Member(Box::new(E::Var("vm".into())), "missing".into())), Box::new(value), false),
    }
}

pub fn op_count(e: &E) -> usize {
    match e {
        E::Bin(_, l, r) => 1 + op_count(l) + op_count(r),
        E::Not(x) | E::Paren(x) | E::Member(x, _) => op_count(x),
        E::Index(a, b) | E::Assign(a, b, _) => op_count(a) + op_count(b),
        E::ArrLit(i) | E::Call(_, i) | E::Seq(i) => i.iter().map(op_count).sum(),
        E::MapLit(i) => i.iter().map(|(_, x)| op_count(x)).sum(),
        E::MCall(x, _, a) => op_count(x) + a.iter().map(op_count).sum::<usize>(),
        _ => 0,
    }
}
