//! C16 – delayed sends fire once, not early, in due-time order, unless cancelled.
use crate::expr_ref::V;
use crate::rec::{self, Entry, Ev, Wait};
use crate::report::{Args, Report};
use crate::rng::Rng;
use crate::session::{parse_xml, Case, Running};
use serde_json::json;
use std::collections::HashMap;
use std::time::{Duration, Instant};

#[derive(Clone, Debug)]
struct SendSpec {
    uid: String,
    delay_ms: u64,
    spelling: String,
    /// how the cancel refers to it (None = never cancelled)
    cancel: Option<CancelHow>,
    use_idlocation: bool,
    to_self_by_id: bool,
    /// the literal id attribute (a send may reuse the id of the send before it)
    id: String,
    /// event name, target and namelist value come from variables that are overwritten right after the <send>
    by_vars: bool,
}

#[derive(Clone, Debug, PartialEq)]
enum CancelHow {
    /// cancelled in the same block right after the sends
    Immediately,
    /// cancelled by a later host event after `after_ms`
    Later(u64),
    /// a sibling session cancels the same id string (must have no effect)
    OtherSession,
}

fn spell(ms: u64, rng: &mut Rng) -> String {
    match rng.below(10) {
        // minutes (named by the property), hours and days (documented by parse_duration_to_milliseconds): enough
        // decimals that the platform's rounding to whole milliseconds gives back exactly `ms`
        6 => format!("{:.7}m", ms as f64 / 60000.0),
        7 => format!("{:.7}M", ms as f64 / 60000.0),
        8 => format!("{:.9}h", ms as f64 / 3600000.0),
        9 => format!("{:.11}d", ms as f64 / 86400000.0),
        0 => format!("{}ms", ms),
        1 => format!("{}s", ms as f64 / 1000.0),
        2 => {
            let s = format!("{}", ms as f64 / 1000.0);
            if let Some(x) = s.strip_prefix("0.") {
                format!(".{}s", x)
            } else {
                format!("{}s", s)
            }
        }
        3 => format!("{}MS", ms),
        4 => format!("{}S", ms as f64 / 1000.0),
        _ => format!("{}ms", ms),
    }
}

fn wait_stable(r: &mut Running, n: u64, t: Duration) -> bool {
    rec::wait_idle_stable(r.tracer, n, Duration::from_millis(15), t) == Wait::Idle
}

struct Outcome {
    violations: Vec<(String, String)>,
    inconclusive: Option<String>,
    decided_order_pairs: u64,
    undecided_order_pairs: u64,
    decided_cancels: u64,
    decided_shared_id_cancels: u64,
    undecided_cancels: u64,
    delivered: u64,
    /// unit spellings of the delays that were delivered not early (one entry per delivered event)
    units_delivered: Vec<String>,
    xml: String,
    timeline: Vec<String>,
}

fn mark_time(log: &[Entry], tag: &str, uid: &str) -> Option<Instant> {
    log.iter().find_map(|e| match &e.ev {
        Ev::Mark { tag: t, args, .. } if t == tag && matches!(args.first(), Some(V::Str(s)) if s == uid) => Some(e.t),
        _ => None,
    })
}

fn mark_seq(log: &[Entry], tag: &str, uid: &str) -> Option<u64> {
    log.iter().find_map(|e| match &e.ev {
        Ev::Mark { tag: t, args, .. } if t == tag && matches!(args.first(), Some(V::Str(s)) if s == uid) => Some(e.seq),
        _ => None,
    })
}

fn scenario(rng: &mut Rng, thorough: bool, dm: &str) -> Outcome {
    let w_ms: u64 = if thorough { 1000 } else { 300 };
    let n = 2 + rng.below(5);
    let delays: Vec<u64> = if thorough { vec![1, 2, 5, 10, 20, 50, 100, 300, 800, 2000] } else { vec![1, 2, 5, 10, 20, 40, 80, 150, 300] };
    let mut sends: Vec<SendSpec> = Vec::new();
    for i in 0..n {
        let d = if i > 0 && rng.chance(1, 5) { sends[i - 1].delay_ms } else { *rng.pick(&delays) };
        let cancel = match rng.below(8) {
            0 => Some(CancelHow::Immediately),
            1 => Some(CancelHow::Later(*rng.pick(&[0u64, 5, 30, 100]))),
            2 => Some(CancelHow::OtherSession),
            _ => None,
        };
        let use_idlocation = cancel == Some(CancelHow::Immediately) && rng.chance(1, 3);
        // two pending sends may carry the same id: both are delivered (and one <cancel> hits both)
        // ... or one <cancel> with that id prevents the delivery of all of them: the later send of the pair carries it
        let cancels_both = matches!(cancel, Some(CancelHow::Immediately) | Some(CancelHow::Later(_))) && !use_idlocation;
        let share = i > 0 && (cancel.is_none() || cancels_both) && sends[i - 1].cancel.is_none() && !sends[i - 1].use_idlocation && rng.chance(if cancels_both { 2 } else { 1 }, 5);
        let id = if share { sends[i - 1].id.clone() } else { format!("u{}", i) };
        sends.push(SendSpec {
            id,
            uid: format!("u{}", i),
            delay_ms: d,
            spelling: spell(d, rng),
            cancel,
            use_idlocation,
            to_self_by_id: rng.chance(1, 4),
            by_vars: rng.chance(1, 3),
        });
    }
    // program order of the sends is the index order; the delays are random so due order differs
    let mut body = String::new();
    let mut data = String::from("<data id=\"v\" expr=\"100\"/><data id=\"me\" expr=\"0\"/><data id=\"loc\" expr=\"''\"/>");
    for s in &sends {
        data.push_str(&format!("<data id=\"del_{}\" expr=\"'{}'\"/>", s.uid, s.spelling));
        if s.by_vars {
            data.push_str(&format!("<data id=\"evn_{u}\" expr=\"'d.{u}'\"/><data id=\"tgt_{u}\" expr=\"''\"/><data id=\"nv_{u}\" expr=\"7\"/>", u = s.uid));
        }
    }
    for (i, s) in sends.iter().enumerate() {
        let idattr = if s.use_idlocation { "idlocation=\"loc\"".to_string() } else { format!("id=\"{}\"", s.id) };
        let delayattr = if i % 3 == 2 { format!("delayexpr=\"del_{}\"", s.uid) } else { format!("delay=\"{}\"", s.spelling) };
        let target = if s.by_vars {
            format!(" targetexpr=\"tgt_{u}\" namelist=\"nv_{u}\"", u = s.uid)
        } else if s.to_self_by_id {
            " targetexpr=\"'#_scxml_' + toString(_sessionid)\"".to_string()
        } else {
            String::new()
        };
        let event = if s.by_vars { format!("eventexpr=\"evn_{}\"", s.uid) } else { format!("event=\"d.{}\"", s.uid) };
        body.push_str(&format!(
            "<script>mark('sb', '{u}')</script><send {id} {event} {delay}{target}><param name=\"v\" expr=\"v\"/><param name=\"u\" expr=\"'{u}'\"/></send><script>mark('sa', '{u}')</script>\n<assign location=\"v\" expr=\"v + 1\"/>\n",
            u = s.uid,
            id = idattr,
            event = event,
            delay = delayattr,
            target = target
        ));
        if s.by_vars {
            // every argument of the <send> was evaluated when it executed: what the variables hold afterwards is irrelevant
            body.push_str(&format!(
                "<assign location=\"evn_{u}\" expr=\"'d.wrong'\"/><assign location=\"tgt_{u}\" expr=\"'#_scxml_987654'\"/><assign location=\"nv_{u}\" expr=\"nv_{u} + 1\"/>\n",
                u = s.uid
            ));
        }
        if s.cancel == Some(CancelHow::Immediately) {
            if s.use_idlocation {
                body.push_str(&format!("<script>mark('cb', '{u}')</script><cancel sendidexpr=\"loc\"/><script>mark('ca', '{u}')</script>\n", u = s.uid));
            } else if i % 2 == 0 {
                body.push_str(&format!("<script>mark('cb', '{u}')</script><cancel sendid=\"{id}\"/><script>mark('ca', '{u}')</script>\n", u = s.uid, id = s.id));
            } else {
                body.push_str(&format!("<script>mark('cb', '{u}')</script><cancel sendidexpr=\"'{id}'\"/><script>mark('ca', '{u}')</script>\n", u = s.uid, id = s.id));
            }
        }
    }
    body.push_str("<cancel sendid=\"never-sent\"/>\n");
    // barrier: due at least 100 ms after everything else and never cancelled; its arrival is the
    // logical point after which every earlier-due event must have been delivered
    let bar_ms = sends.iter().map(|s| s.delay_ms).max().unwrap_or(0) + 100;
    body.push_str(&format!(
        "<script>mark('sb', 'ubar')</script><send id=\"ubar\" event=\"d.ubar\" delay=\"{}ms\"><param name=\"v\" expr=\"v\"/><param name=\"u\" expr=\"'ubar'\"/></send><script>mark('sa', 'ubar')</script>\n",
        bar_ms
    ));
    let mut later = String::new();
    for s in &sends {
        if let Some(CancelHow::Later(_)) = s.cancel {
            later.push_str(&format!(
                "<transition event=\"cancel.{u}\"><script>mark('cb', '{u}')</script><cancel sendid=\"{id}\"/><script>mark('ca', '{u}')</script></transition>\n",
                u = s.uid,
                id = s.id
            ));
        }
    }
    let dm_to_string = if dm == "ecmascript" { "String(_sessionid)" } else { "toString(_sessionid)" };
    let xml = format!(
        r##"<scxml xmlns="http://www.w3.org/2005/07/scxml" version="1.0" datamodel="{dm}" initial="a">
 <datamodel>{data}</datamodel>
 <state id="a">
  <transition event="go">
{body}  </transition>
{later}  <transition event="d"><script>mark('rv', _event.data.u, _event.data.v, _event.name, _event.data)</script></transition>
  <transition event="error.communication"><script>mark('errcomm')</script></transition>
  <transition event="sentinel"><script>mark('sentinel')</script></transition>
 </state>
</scxml>"##,
        dm = dm,
        data = data,
        body = body.replace("toString(_sessionid)", dm_to_string),
        later = later
    );
    let mut out = Outcome {
        violations: vec![],
        inconclusive: None,
        decided_order_pairs: 0,
        undecided_order_pairs: 0,
        decided_cancels: 0,
        decided_shared_id_cancels: 0,
        undecided_cancels: 0,
        delivered: 0,
        units_delivered: vec![],
        xml: xml.clone(),
        timeline: vec![],
    };
    let mut case = Case::new();
    let fsm = match parse_xml(&xml) {
        Ok(f) => f,
        Err(e) => {
            out.inconclusive = Some(e);
            return out;
        }
    };
    let mut r = case.start(fsm);
    if !wait_stable(&mut r, 0, Duration::from_secs(10)) {
        out.inconclusive = Some("start".into());
        return out;
    }
    // sibling that cancels the same id strings
    let mut sib_cancels = String::new();
    for s in &sends {
        if s.cancel == Some(CancelHow::OtherSession) {
            sib_cancels.push_str(&format!("<cancel sendid=\"{}\"/>", s.uid));
        }
    }
    let sib_xml = format!(
        r##"<scxml xmlns="http://www.w3.org/2005/07/scxml" version="1.0" datamodel="rfsm-expression" initial="s"><state id="s"><transition event="cancelall">{}<script>mark('sibling-cancelled')</script></transition></state></scxml>"##,
        sib_cancels
    );
    let mut sib = case.start(parse_xml(&sib_xml).unwrap());
    wait_stable(&mut sib, 0, Duration::from_secs(10));
    let t_go = Instant::now();
    r.send("go");
    sib.send("cancelall");
    let mut later_events: Vec<(u64, String)> = sends
        .iter()
        .filter_map(|s| match s.cancel {
            Some(CancelHow::Later(a)) => Some((a, format!("cancel.{}", s.uid))),
            _ => None,
        })
        .collect();
    later_events.sort();
    for (after, ev) in &later_events {
        let due = t_go + Duration::from_millis(*after);
        let now = Instant::now();
        if due > now {
            std::thread::sleep(due - now);
        }
        r.send(ev);
    }
    // wait for the barrier event (logical end of the scenario); the watchdog is generous and only
    // ever yields "inconclusive"
    let t0 = Instant::now();
    loop {
        let seen = rec::snapshot_log().iter().any(|e| matches!(&e.ev, Ev::Mark { tag, args, .. } if tag == "rv" && matches!(args.first(), Some(V::Str(u)) if u == "ubar")));
        if seen {
            break;
        }
        if t0.elapsed() > Duration::from_millis(bar_ms) + Duration::from_secs(90) {
            out.inconclusive = Some("barrier event not delivered within the watchdog".into());
            let _ = r.finish();
            let _ = sib.finish();
            let _ = rec::take_log();
            return out;
        }
        std::thread::sleep(Duration::from_millis(10));
    }
    // a short grace period so that duplicates / late deliveries have a chance to show up
    std::thread::sleep(Duration::from_millis(w_ms / 10));
    r.finish();
    sib.finish();
    let log = rec::take_log();
    // ---- checker ----
    let sid = r.session.session_id;
    for e in &log {
        if let Ev::Mark { tag, args, session, .. } = &e.ev {
            let us = if e.t >= t_go { (e.t - t_go).as_micros() as i64 } else { -((t_go - e.t).as_micros() as i64) };
            out.timeline.push(format!("{:>9}us seq={} thread={} session={} {}({})", us, e.seq, e.tid, session, tag, args.iter().map(|a| a.show()).collect::<Vec<_>>().join(",")));
        }
    }
    let mut rv_extra: HashMap<String, (V, V)> = HashMap::new();
    let mut rv: HashMap<String, Vec<(Instant, V, u64)>> = HashMap::new();
    for e in &log {
        if let Ev::Mark { tag, args, session, .. } = &e.ev {
            if tag == "rv" && *session == sid {
                if let Some(V::Str(u)) = args.first() {
                    rv.entry(u.clone()).or_default().push((e.t, args.get(1).cloned().unwrap_or(V::NoneV), e.seq));
                    rv_extra.insert(u.clone(), (args.get(2).cloned().unwrap_or(V::NoneV), args.get(3).cloned().unwrap_or(V::NoneV)));
                }
            }
        }
    }
    let ms = |d: Duration| d.as_secs_f64() * 1000.0;
    for (i, s) in sends.iter().enumerate() {
        let sb = mark_time(&log, "sb", &s.uid);
        let sa = mark_time(&log, "sa", &s.uid);
        let (sb, sa) = match (sb, sa) {
            (Some(a), Some(b)) => (a, b),
            _ => {
                out.inconclusive = Some(format!("send {} was not executed", s.uid));
                continue;
            }
        };
        let arrivals = rv.get(&s.uid).cloned().unwrap_or_default();
        if arrivals.len() > 1 {
            out.violations.push(("delivered-twice".into(), format!("delayed event {} (delay {}) was delivered {} times", s.uid, s.spelling, arrivals.len())));
        }
        // the <cancel> that applies to this send: its own, or the one a later send with the same id carries
        // (<cancel sendid> names an id, and every pending send with that id is "that send")
        let own_cancel = |y: &SendSpec| y.cancel.is_some() && y.cancel != Some(CancelHow::OtherSession);
        let cancel_owner: Option<&SendSpec> = if own_cancel(s) { Some(s) } else { sends.iter().skip(i + 1).find(|y| y.id == s.id && own_cancel(y)) };
        let by_shared_id = cancel_owner.map(|o| o.uid != s.uid).unwrap_or(false);
        let cuid = cancel_owner.map(|o| o.uid.clone()).unwrap_or_else(|| s.uid.clone());
        let _cb = mark_time(&log, "cb", &cuid);
        let ca = mark_time(&log, "ca", &cuid);
        let earliest_due = sb + Duration::from_millis(s.delay_ms);
        let latest_due = sa + Duration::from_millis(s.delay_ms);
        let effective_cancel = cancel_owner.is_some();
        if let Some((t, val, _)) = arrivals.first() {
            out.delivered += 1;
            out.units_delivered.push(s.spelling.trim_start_matches(|c: char| c.is_ascii_digit() || c == '.').to_string());
            // not early (1 ms granularity of the timer)
            let gap = ms(*t - sb);
            if gap + 1.0 < s.delay_ms as f64 {
                out.violations.push((
                    "delivered-early".into(),
                    format!("event {} with delay {} ({} ms) was received {:.2} ms after its <send> started", s.uid, s.spelling, s.delay_ms, gap),
                ));
            }
            // payload evaluated at send time
            let want = 100 + i as i64;
            let ok = match val {
                V::Int(x) => *x == want,
                V::Dbl(x) => *x == want as f64,
                _ => false,
            };
            if !ok {
                out.violations.push((
                    "payload-not-evaluated-at-send-time".into(),
                    format!("event {} carries v = {} but v was {} when the <send> executed", s.uid, val.show(), want),
                ));
            }
            if s.by_vars {
                if let Some((name, data)) = rv_extra.get(&s.uid) {
                    let name_ok = matches!(name, V::Str(n) if *n == format!("d.{}", s.uid));
                    let nv_ok = match data {
                        V::Map(m) => match m.get(&format!("nv_{}", s.uid)) {
                            Some(V::Int(7)) => true,
                            Some(V::Dbl(x)) => *x == 7.0,
                            _ => false,
                        },
                        _ => false,
                    };
                    if !name_ok || !nv_ok {
                        out.violations.push((
                            "send-arguments-not-evaluated-at-send-time".into(),
                            format!("event {}: eventexpr / namelist variables were overwritten after the <send>; it arrived as {} with data {} (expected name d.{} and nv_{} = 7)", s.uid, name.show(), data.show(), s.uid, s.uid),
                        ));
                    }
                }
            }
            if effective_cancel {
                if let Some(ca) = ca {
                    if ca < earliest_due {
                        out.decided_cancels += 1;
                        out.violations.push((
                            if by_shared_id { "cancelled-event-delivered:id-shared-with-another-pending-send" } else { "cancelled-event-delivered" }.into(),
                            format!(
                                "event {} (delay {} ms) was delivered although <cancel> had completed {:.2} ms before its earliest due time",
                                s.uid,
                                s.delay_ms,
                                ms(earliest_due - ca)
                            ),
                        ));
                    } else {
                        out.undecided_cancels += 1;
                    }
                }
            }
        } else {
            // never arrived although the barrier event, due at least 100 ms later, was delivered
            if !effective_cancel {
                let shared = sends.iter().any(|y| y.uid != s.uid && y.id == s.id);
                out.violations.push((
                    if s.cancel == Some(CancelHow::OtherSession) {
                        "cancel-from-other-session-took-effect"
                    } else if shared {
                        "delayed-event-lost:id-shared-with-another-pending-send"
                    } else {
                        "delayed-event-lost"
                    }
                    .to_string(),
                    format!("event {} (delay {}) was never delivered although it was not cancelled and the barrier event (due >= 100 ms later) was delivered", s.uid, s.spelling),
                ));
            } else {
                // cancelled: it had to be delivered only if a later-due event was processed before the cancel started
                let cb_seq = mark_seq(&log, "cb", &cuid);
                let overtaken = sends.iter().find(|y| {
                    y.uid != s.uid
                        && match (mark_time(&log, "sb", &y.uid), rv.get(&y.uid).and_then(|v| v.first()), cb_seq) {
                            (Some(sb_y), Some(ry), Some(cbs)) => sb_y + Duration::from_millis(y.delay_ms) > latest_due && ry.2 < cbs,
                            _ => false,
                        }
                });
                if let Some(y) = overtaken {
                    out.violations.push((
                        "delayed-event-lost".to_string(),
                        format!("event {} (delay {}) was not delivered before its <cancel> although {} (due later) had already been delivered then", s.uid, s.spelling, y.uid),
                    ));
                } else if ca.map(|c| c < earliest_due).unwrap_or(false) {
                    out.decided_cancels += 1;
                    if by_shared_id {
                        out.decided_shared_id_cancels += 1;
                    }
                } else {
                    out.undecided_cancels += 1;
                }
            }
        }
    }
    // due order
    for a in &sends {
        for b in &sends {
            if a.uid == b.uid {
                continue;
            }
            let (ra, rb) = match (rv.get(&a.uid).and_then(|v| v.first()), rv.get(&b.uid).and_then(|v| v.first())) {
                (Some(x), Some(y)) => (x, y),
                _ => continue,
            };
            let sa_a = mark_time(&log, "sa", &a.uid).unwrap();
            let sb_b = mark_time(&log, "sb", &b.uid).unwrap();
            let latest_a = sa_a + Duration::from_millis(a.delay_ms);
            let earliest_b = sb_b + Duration::from_millis(b.delay_ms);
            if latest_a < earliest_b {
                out.decided_order_pairs += 1;
                if ra.2 > rb.2 {
                    out.violations.push((
                        // `a` is due earlier.  If it was also *scheduled* later than `b` (sb_a after sa_b) the
                        // inversion is the known artifact of the timer crate's communication thread (the
                        // request for `a` was still in transit when `b` fired); any other inversion is new.
                        if a.delay_ms == b.delay_ms {
                            "equal-delay-order-violated"
                        } else if mark_time(&log, "sb", &a.uid).unwrap() > mark_time(&log, "sa", &b.uid).unwrap() {
                            "due-order-violated:later-scheduled-event-overtaken-while-overdue"
                        } else {
                            "due-order-violated:earlier-scheduled-event-overtaken"
                        }
                        .to_string(),
                        format!(
                            "{} (delay {} ms) was due {:.2} ms before {} (delay {} ms) but was delivered after it",
                            a.uid,
                            a.delay_ms,
                            ms(earliest_b - latest_a),
                            b.uid,
                            b.delay_ms
                        ),
                    ));
                }
            } else if a.uid < b.uid {
                out.undecided_order_pairs += 1;
            }
        }
    }
    out
}

/// a session that terminates discards its undelivered delayed events
fn termination_scenario(d_ms: u64, end_after_ms: u64, w_ms: u64, by_cancel: bool) -> (Vec<(String, String)>, Option<String>, bool) {
    let mut case = Case::new();
    let observer_xml = r##"<scxml xmlns="http://www.w3.org/2005/07/scxml" version="1.0" datamodel="rfsm-expression" initial="o"><state id="o"><transition event="late"><script>mark('late-arrived', _event.data.from)</script></transition><transition event="sentinel"><script>mark('sentinel')</script></transition></state></scxml>"##;
    let mut obs = case.start(parse_xml(observer_xml).unwrap());
    wait_stable(&mut obs, 0, Duration::from_secs(10));
    let oid = obs.session.session_id;
    let sender = |name: &str, ends: bool| -> String {
        format!(
            r##"<scxml xmlns="http://www.w3.org/2005/07/scxml" version="1.0" datamodel="rfsm-expression" initial="s">
 <state id="s"><onentry><script>mark('sb', '{name}')</script><send event="late" delay="{d}ms" target="#_scxml_{oid}"><param name="from" expr="'{name}'"/></send><script>mark('sa', '{name}')</script>{end}</onentry>
  <transition event="end" target="f"/></state><final id="f"><onentry><script>mark('ended', '{name}')</script></onentry></final></scxml>"##,
            name = name,
            d = d_ms,
            oid = oid,
            end = if ends && !by_cancel { format!("<send event=\"end\" delay=\"{}ms\"/>", end_after_ms) } else { String::new() }
        )
    };
    let mut dying = case.start(parse_xml(&sender("dying", true)).unwrap());
    let mut surviving = case.start(parse_xml(&sender("surviving", false)).unwrap());
    let t0 = Instant::now();
    if by_cancel {
        std::thread::sleep(Duration::from_millis(end_after_ms));
        dying.send(crate::refsim::CANCEL);
    }
    let ok = rec::wait_finished(dying.tracer, Duration::from_secs(10));
    let t_end = Instant::now();
    std::thread::sleep(Duration::from_millis(d_ms + w_ms).saturating_sub(t0.elapsed()));
    obs.send("sentinel");
    wait_stable(&mut obs, 2, Duration::from_secs(10));
    surviving.finish();
    obs.finish();
    let log = rec::take_log();
    let mut v = Vec::new();
    if !ok {
        return (v, Some("the sending session did not end".into()), false);
    }
    let sb = mark_time(&log, "sb", "dying");
    let decided = match sb {
        Some(sb) => t_end + Duration::from_millis(5) < sb + Duration::from_millis(d_ms),
        None => false,
    };
    let arrived = |who: &str| log.iter().any(|e| matches!(&e.ev, Ev::Mark { tag, args, .. } if tag == "late-arrived" && matches!(args.first(), Some(V::Str(s)) if s == who)));
    if !arrived("surviving") {
        return (v, Some("the sentinel event of the surviving session did not arrive".into()), false);
    }
    if decided && arrived("dying") {
        v.push((
            if by_cancel { "delayed-event-of-cancelled-session-delivered" } else { "delayed-event-of-terminated-session-delivered" }.to_string(),
            format!(
                "a session scheduled an event with delay {} ms, {} {} ms later, and the event was still delivered",
                d_ms,
                if by_cancel { "was cancelled" } else { "reached its final state" },
                end_after_ms
            ),
        ));
    }
    (v, None, decided)
}

pub fn run(args: &Args, rep: &mut Report) {
    let mut rng = args.rng(16);
    let n = args.scale(6, 80);
    let dms: Vec<&str> = if cfg!(feature = "full") { vec!["rfsm-expression", "rfsm-expression", "ecmascript"] } else { vec!["rfsm-expression"] };
    for i in 0..n {
        let dm = dms[i % dms.len()];
        let o = scenario(&mut rng, args.thorough(), dm);
        rep.evaluations += 1;
        rep.count("delayed_events_delivered", o.delivered);
        for u in &o.units_delivered {
            rep.count(&format!("delivered_with_unit_{}", u), 1);
        }
        rep.count("decided_due_order_pairs", o.decided_order_pairs);
        rep.count("undecided_due_order_pairs", o.undecided_order_pairs);
        rep.count("decided_cancels", o.decided_cancels);
        rep.count("decided_cancels_through_a_shared_id", o.decided_shared_id_cancels);
        rep.count("undecided_cancels", o.undecided_cancels);
        if let Some(i) = &o.inconclusive {
            rep.inconclusive(i);
        }
        if o.decided_order_pairs > 0 || o.decided_cancels > 0 {
            rep.nontrivial_key(&format!("{:x}", crate::rng::fnv(&o.xml)));
        }
        for (k, w) in &o.violations {
            rep.violation(k, &format!("[{}] {}", dm, w), json!({"datamodel": dm, "xml": o.xml, "timeline": o.timeline}));
        }
        if rep.samples.len() < rep.max_samples {
            rep.sample(json!({"datamodel": dm, "xml": o.xml, "delivered": o.delivered, "decided_order_pairs": o.decided_order_pairs, "decided_cancels": o.decided_cancels}));
        }
    }
    // termination discard
    let reps = args.scale(2, 12);
    for i in 0..reps {
        let d = *rng.pick(&[60u64, 100, 200]);
        let end_after = *rng.pick(&[1u64, 5, 15]);
        let (v, inc, decided) = termination_scenario(d, end_after, if args.thorough() { 1000 } else { 300 }, i % 2 == 1);
        rep.evaluations += 1;
        if decided {
            rep.count("decided_termination_discards", 1);
            rep.nontrivial_key(&format!("term:{}:{}:{}:{}", d, end_after, i % 2, args.shard));
        } else {
            rep.count("undecided_termination_discards", 1);
        }
        if let Some(i) = inc {
            rep.inconclusive(&i);
        }
        for (k, w) in v {
            rep.violation(&k, &w, json!({"delay_ms": d, "ends_after_ms": end_after, "by_cancel": i % 2 == 1}));
        }
    }
}
