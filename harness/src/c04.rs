//! C04 – the XML reader builds a model that mirrors the SCXML document.
//! Generated element trees → (a) expected canonical model built by an independent reading of the
//! tree, (b) several lexical renderings → real reader → canonical dump; all must agree.
use crate::canon::{diff, dump, CanonOpts};
use crate::report::{Args, Report};
use crate::rng::Rng;
use crate::session::parse_xml;
use serde_json::{json, Map, Value};

#[derive(Clone, Debug)]
pub struct El {
    pub name: String,
    pub attrs: Vec<(String, String)>,
    pub kids: Vec<Kid>,
}

#[derive(Clone, Debug)]
pub enum Kid {
    El(El),
    Text(String),
}

impl El {
    fn new(name: &str) -> El {
        El { name: name.to_string(), attrs: vec![], kids: vec![] }
    }
    fn a(mut self, k: &str, v: &str) -> El {
        self.attrs.push((k.to_string(), v.to_string()));
        self
    }
    fn k(mut self, e: El) -> El {
        self.kids.push(Kid::El(e));
        self
    }
    fn t(mut self, s: &str) -> El {
        self.kids.push(Kid::Text(s.to_string()));
        self
    }
    fn attr(&self, k: &str) -> Option<&str> {
        self.attrs.iter().find(|(a, _)| a == k).map(|(_, v)| v.as_str())
    }
    fn els(&self) -> impl Iterator<Item = &El> {
        self.kids.iter().filter_map(|k| if let Kid::El(e) = k { Some(e) } else { None })
    }
    fn text(&self) -> String {
        self.kids.iter().filter_map(|k| if let Kid::Text(t) = k { Some(t.clone()) } else { None }).collect::<Vec<_>>().join("")
    }
}

// ---------------------------------------------------------------------------------------------
// generator

struct G<'a> {
    rng: &'a mut Rng,
    ids: Vec<String>,
    n: usize,
    stats: Stats,
    /// texts may contain characters that need escaping
    hard_text: bool,
}

#[derive(Default, Clone)]
pub struct Stats {
    pub nested_elseif: bool,
    pub forward_ref: bool,
    pub invoke: bool,
    pub donedata: bool,
    pub foreach_in_if: bool,
}

fn exprs() -> Vec<&'static str> {
    vec!["v", "v + 1", "'text'", "1", "v == 2", "In('a1')", "w", "[1,2,3]", "v < 3", "v > 1 & w"]
}

impl<'a> G<'a> {
    fn expr(&mut self) -> String {
        let e = exprs();
        e[self.rng.below(e.len())].to_string()
    }
    fn some_id(&mut self) -> String {
        self.ids[self.rng.below(self.ids.len())].clone()
    }
    fn block(&mut self, depth: usize, in_finalize: bool) -> Vec<El> {
        let mut v = Vec::new();
        let n = self.rng.below(4);
        for _ in 0..n {
            v.push(self.stmt(depth, in_finalize));
        }
        v
    }
    fn stmt(&mut self, depth: usize, in_finalize: bool) -> El {
        let pick = self.rng.below(if depth == 0 { 6 } else { 10 });
        match pick {
            0 => El::new("log").a("label", "L").a("expr", &self.expr()),
            1 => El::new("assign").a("location", "v").a("expr", &self.expr()),
            2 => {
                let t = if self.hard_text { "v = v; /* a < b && c > d */ w = 'x'" } else { "v = v + 1" };
                El::new("script").t(t)
            }
            3 if !in_finalize => El::new("raise").a("event", &format!("r{}.x", self.rng.below(3))),
            4 if !in_finalize => self.send(),
            5 if !in_finalize => {
                if self.rng.chance(1, 2) {
                    El::new("cancel").a("sendid", "sid1")
                } else {
                    El::new("cancel").a("sendidexpr", "w")
                }
            }
            6 | 7 => {
                // if / elseif / else
                let mut e = El::new("if").a("cond", &self.expr());
                for s in self.block(depth - 1, in_finalize) {
                    e = e.k(s);
                }
                let n_elseif = self.rng.below(3);
                if n_elseif >= 2 {
                    self.stats.nested_elseif = true;
                }
                for _ in 0..n_elseif {
                    e = e.k(El::new("elseif").a("cond", &self.expr()));
                    for s in self.block(depth - 1, in_finalize) {
                        e = e.k(s);
                    }
                }
                if self.rng.chance(1, 2) {
                    e = e.k(El::new("else"));
                    for s in self.block(depth - 1, in_finalize) {
                        e = e.k(s);
                    }
                }
                e
            }
            8 => {
                let mut e = El::new("foreach").a("array", "arr").a("item", "it");
                if self.rng.chance(1, 2) {
                    e = e.a("index", "ix");
                }
                for s in self.block(depth - 1, in_finalize) {
                    if s.name == "if" {
                        self.stats.foreach_in_if = true;
                    }
                    e = e.k(s);
                }
                e
            }
            _ => El::new("log").a("expr", &self.expr()),
        }
    }
    fn send(&mut self) -> El {
        let mut e = El::new("send");
        if self.rng.chance(2, 3) {
            e = e.a("event", &format!("s{}.y", self.rng.below(3)));
        } else {
            e = e.a("eventexpr", "'ev' + v");
        }
        match self.rng.below(4) {
            0 => e = e.a("target", "#_internal"),
            1 => e = e.a("targetexpr", "'#_scxml_' + v"),
            _ => {}
        }
        match self.rng.below(4) {
            0 => e = e.a("type", "scxml"),
            1 => e = e.a("typeexpr", "'scxml'"),
            _ => {}
        }
        match self.rng.below(4) {
            0 => e = e.a("id", "sid1"),
            1 => e = e.a("idlocation", "w"),
            _ => {}
        }
        match self.rng.below(5) {
            0 => e = e.a("delay", &format!("{}ms", 10 * (1 + self.rng.below(50)))),
            1 => e = e.a("delay", &format!("{}s", 1 + self.rng.below(5))),
            2 => e = e.a("delayexpr", "'1s'"),
            _ => {}
        }
        if self.rng.chance(1, 3) {
            e = e.k(El::new("content").t(if self.hard_text { "some <b>markup</b> & text" } else { "plain content" }));
        } else if self.rng.chance(1, 4) {
            e = e.k(El::new("content").a("expr", "v"));
        } else {
            if self.rng.chance(1, 3) {
                e = e.a("namelist", "v w");
            }
            for i in 0..self.rng.below(3) {
                if self.rng.chance(1, 2) {
                    e = e.k(El::new("param").a("name", &format!("p{}", i)).a("expr", &self.expr()));
                } else {
                    e = e.k(El::new("param").a("name", &format!("p{}", i)).a("location", "v"));
                }
            }
        }
        e
    }
    fn transition(&mut self) -> El {
        let mut t = El::new("transition");
        if self.rng.chance(5, 6) {
            let mut evs = Vec::new();
            for _ in 0..1 + self.rng.below(2) {
                let base = format!("e{}", self.rng.below(4));
                let d = match self.rng.below(5) {
                    0 => format!("{}.", base),
                    1 => format!("{}.*", base),
                    2 => format!("{}.sub", base),
                    3 if evs.is_empty() => "*".to_string(),
                    _ => base,
                };
                evs.push(d);
            }
            t = t.a("event", &evs.join(" "));
        }
        if self.rng.chance(1, 3) {
            t = t.a("cond", &self.expr());
        }
        if self.rng.chance(4, 5) {
            let mut tg = vec![self.some_id()];
            if self.rng.chance(1, 6) {
                tg.push(self.some_id());
            }
            t = t.a("target", &tg.join(" "));
        }
        match self.rng.below(4) {
            0 => t = t.a("type", "internal"),
            1 => t = t.a("type", "external"),
            _ => {}
        }
        for s in self.block(2, false) {
            t = t.k(s);
        }
        t
    }
    fn state(&mut self, idx: &mut usize, depth: usize, allow_final: bool) -> El {
        let id = self.ids[*idx].clone();
        *idx += 1;
        let remaining = self.n - *idx;
        let kind = if allow_final && self.rng.chance(1, 6) {
            "final"
        } else if depth < 3 && remaining >= 2 && self.rng.chance(1, 5) {
            "parallel"
        } else {
            "state"
        };
        let mut e = El::new(kind).a("id", &id);
        if kind == "final" {
            for _ in 0..self.rng.below(2) {
                let mut oe = El::new("onentry");
                for s in self.block(2, false) {
                    oe = oe.k(s);
                }
                e = e.k(oe);
            }
            if self.rng.chance(1, 2) {
                self.stats.donedata = true;
                let mut dd = El::new("donedata");
                if self.rng.chance(1, 2) {
                    dd = dd.k(El::new("content").a("expr", "v"));
                } else {
                    for i in 0..1 + self.rng.below(2) {
                        dd = dd.k(El::new("param").a("name", &format!("d{}", i)).a("expr", &self.expr()));
                    }
                }
                e = e.k(dd);
            }
            return e;
        }
        // children first decided so that "initial" can refer to them
        let n_kids = if depth >= 3 || remaining == 0 {
            0
        } else if kind == "parallel" {
            2.min(remaining)
        } else if self.rng.chance(1, 2) {
            (1 + self.rng.below(3)).min(remaining)
        } else {
            0
        };
        let first_child_idx = *idx;
        let mut kids = Vec::new();
        for k in 0..n_kids {
            if *idx >= self.n {
                break;
            }
            kids.push(self.state(idx, depth + 1, kind == "state" && k > 0));
        }
        let kid_ids: Vec<String> = kids.iter().filter_map(|k| k.attr("id").map(|s| s.to_string())).collect();
        let _ = first_child_idx;
        let mut initial_el: Option<El> = None;
        if kind == "state" && !kid_ids.is_empty() {
            match self.rng.below(3) {
                0 => e = e.a("initial", &kid_ids[self.rng.below(kid_ids.len())]),
                1 => {
                    let mut t = El::new("transition").a("target", &kid_ids[self.rng.below(kid_ids.len())]);
                    for s in self.block(1, false) {
                        t = t.k(s);
                    }
                    initial_el = Some(El::new("initial").k(t));
                }
                _ => {}
            }
        }
        // state-local data
        if self.rng.chance(1, 4) {
            let mut dmodel = El::new("datamodel");
            dmodel = dmodel.k(El::new("data").a("id", &format!("{}_x", id)).a("expr", "1"));
            if self.rng.chance(1, 2) {
                dmodel = dmodel.k(El::new("data").a("id", &format!("{}_y", id)).t(if self.hard_text { "'a < b & c'" } else { "[1, 2]" }));
            }
            if self.rng.chance(1, 3) {
                dmodel = dmodel.k(El::new("data").a("id", &format!("{}_z", id)));
            }
            e = e.k(dmodel);
        }
        if let Some(i) = initial_el {
            e = e.k(i);
        }
        for _ in 0..self.rng.below(3) {
            let mut oe = El::new("onentry");
            for s in self.block(2, false) {
                oe = oe.k(s);
            }
            e = e.k(oe);
        }
        for _ in 0..self.rng.below(2) {
            let mut ox = El::new("onexit");
            for s in self.block(2, false) {
                ox = ox.k(s);
            }
            e = e.k(ox);
        }
        for _ in 0..self.rng.below(4) {
            e = e.k(self.transition());
        }
        if self.rng.chance(1, 4) {
            self.stats.invoke = true;
            let mut inv = El::new("invoke");
            match self.rng.below(3) {
                0 => inv = inv.a("type", "scxml"),
                1 => inv = inv.a("typeexpr", "'scxml'"),
                _ => {}
            }
            match self.rng.below(3) {
                0 => inv = inv.a("src", "child.scxml"),
                1 => inv = inv.a("srcexpr", "'child' + v"),
                _ => {}
            }
            match self.rng.below(3) {
                0 => inv = inv.a("id", &format!("inv_{}", id)),
                1 => inv = inv.a("idlocation", "w"),
                _ => {}
            }
            if self.rng.chance(1, 2) {
                inv = inv.a("autoforward", if self.rng.chance(1, 2) { "true" } else { "false" });
            }
            if self.rng.chance(1, 3) {
                inv = inv.a("namelist", "v");
            }
            for i in 0..self.rng.below(2) {
                inv = inv.k(El::new("param").a("name", &format!("ip{}", i)).a("expr", &self.expr()));
            }
            if inv.attr("src").is_none() && inv.attr("srcexpr").is_none() && self.rng.chance(1, 2) {
                inv = inv.k(El::new("content").a("expr", "w"));
            }
            if self.rng.chance(1, 2) {
                let mut f = El::new("finalize");
                for s in self.block(2, true) {
                    f = f.k(s);
                }
                inv = inv.k(f);
            }
            e = e.k(inv);
        }
        // history
        if !kid_ids.is_empty() && self.rng.chance(1, 4) {
            let h = El::new("history")
                .a("id", &format!("{}_h", id))
                .a("type", if self.rng.chance(1, 2) { "deep" } else { "shallow" })
                .k(El::new("transition").a("target", &kid_ids[self.rng.below(kid_ids.len())]));
            e = e.k(h);
        }
        for k in kids {
            e = e.k(k);
        }
        e
    }
}

pub fn generate(rng: &mut Rng, hard_text: bool) -> (El, Stats) {
    let n = 2 + rng.below(9);
    let ids: Vec<String> = (0..n).map(|i| format!("a{}", i)).collect();
    let mut g = G { rng, ids: ids.clone(), n, stats: Stats::default(), hard_text };
    let mut root = El::new("scxml").a("version", "1.0");
    if g.rng.chance(2, 3) {
        root = root.a("name", "machine");
    }
    root = root.a("datamodel", if g.rng.chance(1, 2) { "rfsm-expression" } else { "ecmascript" });
    if g.rng.chance(1, 3) {
        root = root.a("binding", if g.rng.chance(1, 2) { "late" } else { "early" });
    }
    let mut dmodel = El::new("datamodel");
    dmodel = dmodel.k(El::new("data").a("id", "v").a("expr", "1")).k(El::new("data").a("id", "w").a("expr", "'s'")).k(El::new("data").a("id", "arr").t("[1,2,3]"));
    root = root.k(dmodel);
    if g.rng.chance(1, 3) {
        root = root.k(El::new("script").t("v = 2"));
    }
    let mut idx = 0;
    let mut tops = Vec::new();
    while idx < n {
        let allow_final = !tops.is_empty();
        tops.push(g.state(&mut idx, 1, allow_final));
    }
    if g.rng.chance(1, 2) {
        let t = tops[g.rng.below(tops.len())].attr("id").unwrap().to_string();
        root = root.a("initial", &t);
    }
    for t in tops {
        root = root.k(t);
    }
    // forward references: a transition whose target is declared later in the document
    g.stats.forward_ref = true;
    (root, g.stats)
}

// ---------------------------------------------------------------------------------------------
// expected model (independent reading of the element tree)

fn strip_descriptor(d: &str) -> String {
    let mut s = d;
    loop {
        if let Some(x) = s.strip_suffix(".*") {
            s = x;
            continue;
        }
        if let Some(x) = s.strip_suffix('.') {
            s = x;
            continue;
        }
        break;
    }
    s.to_string()
}

fn delay_ms(s: &str) -> u64 {
    if let Some(x) = s.strip_suffix("ms") {
        x.parse::<f64>().map(|v| v.round() as u64).unwrap_or(0)
    } else if let Some(x) = s.strip_suffix('s') {
        x.parse::<f64>().map(|v| (v * 1000.0).round() as u64).unwrap_or(0)
    } else {
        0
    }
}

fn x_params(e: &El) -> Value {
    Value::Array(
        e.els()
            .filter(|p| p.name == "param")
            .map(|p| json!({"name": p.attr("name").unwrap_or(""), "expr": p.attr("expr").unwrap_or(""), "location": p.attr("location").unwrap_or("")}))
            .collect(),
    )
}

fn x_content(e: &El) -> Value {
    match e.els().find(|c| c.name == "content") {
        None => Value::Null,
        Some(c) => {
            let has_kids = !c.kids.is_empty();
            if c.attr("expr").is_none() && !has_kids {
                return Value::Null;
            }
            json!({"text": if has_kids { json!(c.text().trim()) } else { Value::Null }, "expr": c.attr("expr")})
        }
    }
}

fn x_block(items: &[&El]) -> Value {
    let mut out = Vec::new();
    for e in items {
        out.push(x_item(e));
    }
    Value::Array(out)
}

fn x_if(e: &El) -> Value {
    // split children at elseif / else markers
    let kids: Vec<&El> = e.els().collect();
    let mut branches: Vec<(Option<String>, Vec<&El>)> = vec![(Some(e.attr("cond").unwrap_or("").to_string()), vec![])];
    for k in kids {
        if k.name == "elseif" {
            branches.push((Some(k.attr("cond").unwrap_or("").to_string()), vec![]));
        } else if k.name == "else" {
            branches.push((None, vec![]));
        } else {
            branches.last_mut().unwrap().1.push(k);
        }
    }
    fn build(b: &[(Option<String>, Vec<&El>)]) -> Value {
        match b.first() {
            None => json!([]),
            Some((None, items)) => x_block(items),
            Some((Some(c), items)) => json!([{"if": c, "then": x_block(items), "else": build(&b[1..])}]),
        }
    }
    match build(&branches) {
        Value::Array(mut a) if a.len() == 1 => a.remove(0),
        v => v,
    }
}

fn x_item(e: &El) -> Value {
    match e.name.as_str() {
        "log" => json!({"log": e.attr("expr").unwrap_or(""), "label": e.attr("label").unwrap_or("")}),
        "assign" => json!({"assign": e.attr("location").unwrap_or(""), "expr": e.attr("expr").unwrap_or("")}),
        "script" => json!({"script": e.text().trim()}),
        "raise" => json!({"raise": e.attr("event").unwrap_or("")}),
        "cancel" => json!({"cancel": e.attr("sendid").unwrap_or(""), "sendidexpr": e.attr("sendidexpr").unwrap_or("")}),
        "if" => x_if(e),
        "foreach" => {
            let items: Vec<&El> = e.els().collect();
            json!({"foreach": e.attr("array").unwrap_or(""), "item": e.attr("item").unwrap_or(""), "index": e.attr("index").unwrap_or(""), "body": x_block(&items)})
        }
        "send" => json!({"send": {
            "id": e.attr("id").unwrap_or(""), "idlocation": e.attr("idlocation").unwrap_or(""),
            "event": e.attr("event").unwrap_or(""), "eventexpr": e.attr("eventexpr").unwrap_or(""),
            "target": e.attr("target").unwrap_or(""), "targetexpr": e.attr("targetexpr").unwrap_or(""),
            "type": e.attr("type").unwrap_or(""), "typeexpr": e.attr("typeexpr").unwrap_or(""),
            "delay_ms": e.attr("delay").map(delay_ms).unwrap_or(0), "delayexpr": e.attr("delayexpr").unwrap_or(""),
            "namelist": e.attr("namelist").map(|n| n.split_whitespace().map(|s| s.to_string()).collect::<Vec<_>>()).unwrap_or_default(),
            "params": x_params(e), "content": x_content(e),
        }}),
        other => json!(format!("<unexpected element {}>", other)),
    }
}

fn x_transition(t: &El, source: &str, initial_from_attr: bool) -> Value {
    let events: Vec<String> = t.attr("event").map(|e| e.split_whitespace().map(strip_descriptor).collect()).unwrap_or_default();
    let wildcard = events.iter().any(|e| e == "*");
    let items: Vec<&El> = t.els().collect();
    json!({
        "events": events,
        "wildcard": wildcard,
        "cond": t.attr("cond").unwrap_or(""),
        "targets": t.attr("target").map(|x| x.split_whitespace().map(|s| s.to_string()).collect::<Vec<_>>()).unwrap_or_default(),
        "type": if initial_from_attr { "internal" } else { match t.attr("type") { Some("internal") => "internal", _ => "external" } },
        "body": x_block(&items),
        "source": source,
    })
}

fn x_state(e: &El, parent: &str, out: &mut Vec<Value>, root_name: &str) {
    let is_root = e.name == "scxml";
    let name = if is_root { root_name.to_string() } else { e.attr("id").unwrap_or("").to_string() };
    let kind = match e.name.as_str() {
        "parallel" => "parallel",
        "final" => "final",
        "history" => {
            if e.attr("type") == Some("deep") {
                "history-deep"
            } else {
                "history-shallow"
            }
        }
        _ => "state",
    };
    let child_states: Vec<&El> = e.els().filter(|k| matches!(k.name.as_str(), "state" | "parallel" | "final")).collect();
    let histories: Vec<&El> = e.els().filter(|k| k.name == "history").collect();
    // initial
    let initial = if let Some(a) = e.attr("initial") {
        json!({"events": [], "wildcard": false, "cond": "", "targets": a.split_whitespace().collect::<Vec<_>>(), "type": "internal", "body": [], "source": name})
    } else if let Some(i) = e.els().find(|k| k.name == "initial") {
        let t = i.els().find(|k| k.name == "transition").unwrap();
        x_transition(t, &name, false)
    } else if (e.name == "state" || is_root) && !child_states.is_empty() {
        json!({"events": [], "wildcard": false, "cond": "", "targets": [child_states[0].attr("id").unwrap_or("")], "type": "external", "body": [], "source": name})
    } else {
        Value::Null
    };
    let blocks = |tag: &str| -> Vec<Value> {
        e.els()
            .filter(|k| k.name == tag)
            .map(|b| {
                let items: Vec<&El> = b.els().collect();
                x_block(&items)
            })
            .collect()
    };
    let mut data = Map::new();
    for dm in e.els().filter(|k| k.name == "datamodel") {
        for d in dm.els().filter(|k| k.name == "data") {
            let v = match d.attr("expr") {
                Some(x) => x.to_string(),
                None => d.text().trim().to_string(),
            };
            data.insert(d.attr("id").unwrap_or("").to_string(), json!(v));
        }
    }
    let invokes: Vec<Value> = e
        .els()
        .filter(|k| k.name == "invoke")
        .map(|inv| {
            let fin: Vec<&El> = inv.els().find(|k| k.name == "finalize").map(|f| f.els().collect()).unwrap_or_default();
            json!({
                "id": inv.attr("id").unwrap_or(""), "idlocation": inv.attr("idlocation").unwrap_or(""),
                "type": inv.attr("type").unwrap_or(""), "typeexpr": inv.attr("typeexpr").unwrap_or(""),
                "src": inv.attr("src").unwrap_or(""), "srcexpr": inv.attr("srcexpr").unwrap_or(""),
                "autoforward": inv.attr("autoforward").map(|a| a.eq_ignore_ascii_case("true")).unwrap_or(false),
                "namelist": inv.attr("namelist").map(|n| n.split_whitespace().map(|s| s.to_string()).collect::<Vec<_>>()).unwrap_or_default(),
                "params": x_params(inv), "content": x_content(inv),
                "finalize": x_block(&fin),
                "parent_state_name": name,
            })
        })
        .collect();
    let donedata = match e.els().find(|k| k.name == "donedata") {
        None => Value::Null,
        Some(dd) => json!({"params": match x_params(dd) { Value::Array(a) if a.is_empty() => json!([]), v => v }, "content": x_content(dd)}),
    };
    let rank = out.len();
    out.push(json!({
        "rank": rank,
        "name": name,
        "kind": kind,
        "declared": true,
        "parent": if parent.is_empty() { Value::Null } else { json!(parent) },
        "children": child_states.iter().map(|c| c.attr("id").unwrap_or("")).collect::<Vec<_>>(),
        "histories": histories.iter().map(|c| c.attr("id").unwrap_or("")).collect::<Vec<_>>(),
        "initial": initial,
        "onentry": blocks("onentry"),
        "onexit": blocks("onexit"),
        "transitions": e.els().filter(|k| k.name == "transition").map(|t| x_transition(t, &name, false)).collect::<Vec<_>>(),
        "data": Value::Object(data),
        "invokes": invokes,
        "donedata": donedata,
    }));
    // document order: children (states and histories) in the order they appear
    for k in e.els() {
        if matches!(k.name.as_str(), "state" | "parallel" | "final" | "history") {
            x_state(k, &name, out, root_name);
        }
    }
}

pub fn expected(root: &El) -> Value {
    let mut states = Vec::new();
    let root_name = "__id1";
    x_state(root, "", &mut states, root_name);
    let script: Vec<&El> = root.els().filter(|k| k.name == "script").collect();
    json!({
        "name": root.attr("name").unwrap_or("FSM"),
        "datamodel": root.attr("datamodel").unwrap_or("NULL"),
        "binding": if root.attr("binding") == Some("late") { "Late" } else { "Early" },
        "root": root_name,
        "script": x_block(&script),
        "states": states,
    })
}

// ---------------------------------------------------------------------------------------------
// renderings

#[derive(Clone, Debug, Default)]
pub struct Style {
    pub single_quotes: bool,
    pub spacing: u8,
    pub comments: bool,
    pub entities_in_attrs: bool,
    pub prefix: bool,
    pub xml_decl: bool,
    pub expand_empty: bool,
    pub no_namespace: bool,
    /// subtrees moved to files included with xi:include parse="text"
    pub includes: bool,
}

fn esc_attr(v: &str, quote: char, heavy: bool, rng: &mut Rng) -> String {
    let mut out = String::new();
    for c in v.chars() {
        match c {
            '&' => out.push_str("&amp;"),
            '<' => out.push_str("&lt;"),
            '>' if heavy => out.push_str("&gt;"),
            '"' if quote == '"' => out.push_str("&quot;"),
            '\'' if quote == '\'' => out.push_str("&apos;"),
            c if heavy && c.is_ascii_alphanumeric() && rng.chance(1, 6) => {
                if rng.chance(1, 2) {
                    out.push_str(&format!("&#{};", c as u32));
                } else {
                    out.push_str(&format!("&#x{:X};", c as u32));
                }
            }
            c => out.push(c),
        }
    }
    out
}

fn esc_text(v: &str) -> String {
    v.replace('&', "&amp;").replace('<', "&lt;")
}

fn ws(style: &Style, rng: &mut Rng) -> String {
    match style.spacing {
        0 => String::new(),
        1 => "\n".to_string(),
        _ => [" ", "\n  ", "\t", "\n\n", "  \n"][rng.below(5)].to_string(),
    }
}

fn render_el(e: &El, style: &Style, rng: &mut Rng, out: &mut String, files: &mut Vec<(String, String)>, depth: usize) {
    let q = if style.single_quotes { '\'' } else { '"' };
    let tag = if style.prefix { format!("sc:{}", e.name) } else { e.name.clone() };
    out.push('<');
    out.push_str(&tag);
    if e.name == "scxml" {
        if style.prefix {
            out.push_str(&format!(" xmlns:sc={q}http://www.w3.org/2005/07/scxml{q}", q = q));
        } else if !style.no_namespace {
            out.push_str(&format!(" xmlns={q}http://www.w3.org/2005/07/scxml{q}", q = q));
        }
        if style.includes {
            out.push_str(&format!(" xmlns:xi={q}http://www.w3.org/2001/XInclude{q}", q = q));
        }
    }
    for (k, v) in &e.attrs {
        out.push_str(if style.spacing >= 2 && rng.chance(1, 3) { "\n   " } else { " " });
        out.push_str(k);
        if style.spacing >= 2 && rng.chance(1, 4) {
            out.push_str(" = ");
        } else {
            out.push('=');
        }
        out.push(q);
        out.push_str(&esc_attr(v, q, style.entities_in_attrs, rng));
        out.push(q);
    }
    if e.kids.is_empty() && !(style.expand_empty && matches!(e.name.as_str(), "transition" | "state" | "onentry" | "data" | "param")) {
        out.push_str("/>");
        return;
    }
    out.push('>');
    let text_holder = matches!(e.name.as_str(), "script" | "data" | "assign" | "content");
    for k in &e.kids {
        if !text_holder {
            out.push_str(&ws(style, rng));
            if style.comments && rng.chance(1, 4) {
                out.push_str("<!-- a comment with <tags> & ampersands -->");
                out.push_str(&ws(style, rng));
            }
        }
        match k {
            Kid::Text(t) => out.push_str(&esc_text(t)),
            Kid::El(c) => {
                let includable = style.includes && depth >= 1 && matches!(c.name.as_str(), "state" | "parallel") && rng.chance(1, 3);
                if includable {
                    let fname = format!("inc{}.xml", files.len());
                    let mut sub = String::new();
                    let mut inner = style.clone();
                    inner.includes = false;
                    inner.prefix = false;
                    render_el(c, &inner, rng, &mut sub, files, depth + 1);
                    files.push((fname.clone(), sub));
                    out.push_str(&format!("<xi:include href={q}{f}{q} parse={q}text{q}/>", q = q, f = fname));
                } else {
                    render_el(c, style, rng, out, files, depth + 1);
                }
            }
        }
    }
    if !text_holder {
        out.push_str(&ws(style, rng));
    }
    out.push_str(&format!("</{}>", tag));
}

pub fn render(root: &El, style: &Style, rng: &mut Rng) -> (String, Vec<(String, String)>) {
    let mut out = String::new();
    let mut files = Vec::new();
    if style.xml_decl {
        out.push_str("<?xml version=\"1.0\" encoding=\"UTF-8\"?>\n");
    }
    render_el(root, style, rng, &mut out, &mut files, 0);
    (out, files)
}

fn strip_counts(mut v: Value) -> Value {
    if let Value::Object(m) = &mut v {
        m.remove("n_transitions");
        m.remove("n_content_blocks");
    }
    v
}

pub fn run(args: &Args, rep: &mut Report) {
    let mut rng = args.rng(4);
    let n = args.scale(150, 4000);
    let dir = args.out.join(format!("c04-{}", args.shard));
    let _ = std::fs::create_dir_all(&dir);
    for i in 0..n {
        let hard = i % 5 == 4;
        let (tree, stats) = generate(&mut rng, hard);
        let want = expected(&tree);
        let base = Style::default();
        let styles: Vec<(&str, Style)> = vec![
            ("base", base.clone()),
            ("single-quotes", Style { single_quotes: true, ..base.clone() }),
            ("whitespace", Style { spacing: 2, ..base.clone() }),
            ("comments", Style { spacing: 1, comments: true, ..base.clone() }),
            ("entities-in-attributes", Style { entities_in_attrs: true, ..base.clone() }),
            ("xml-declaration+expanded-empty", Style { xml_decl: true, expand_empty: true, ..base.clone() }),
            ("no-namespace", Style { no_namespace: true, ..base.clone() }),
            ("xinclude", Style { includes: true, spacing: 1, ..base.clone() }),
            ("prefix", Style { prefix: true, ..base.clone() }),
            ("all", Style { single_quotes: true, spacing: 2, comments: true, entities_in_attrs: true, xml_decl: true, expand_empty: true, ..base.clone() }),
        ];
        let mut nontrivial = false;
        if stats.nested_elseif || stats.invoke || stats.donedata {
            nontrivial = true;
        }
        let mut base_dump: Option<Value> = None;
        for (sname, style) in &styles {
            let (xml, files) = render(&tree, style, &mut rng);
            let class = format!("{}{}", sname, if hard { "+escaped-text" } else { "" });
            rep.evaluations += 1;
            rep.count(&format!("renderings_{}", sname), 1);
            let parsed = if files.is_empty() {
                parse_xml(&xml)
            } else {
                rep.count("documents_with_includes", 1);
                let sub = dir.join(format!("d{}", i));
                let _ = std::fs::create_dir_all(&sub);
                for (f, c) in &files {
                    let _ = std::fs::write(sub.join(f), c);
                }
                let main = sub.join("main.scxml");
                let _ = std::fs::write(&main, &xml);
                match std::panic::catch_unwind(std::panic::AssertUnwindSafe(|| rufsm::scxml_reader::parse_from_xml_file(&main, &[sub.clone()]))) {
                    Ok(Ok(f)) => Ok(f),
                    Ok(Err(e)) => Err(format!("reader error: {}", e)),
                    Err(p) => Err(format!("reader panic: {}", crate::exprrun::panic_text(p))),
                }
            };
            let w = json!({"rendering": class, "xml": xml, "included_files": files});
            let fsm = match parsed {
                Ok(f) => f,
                Err(e) => {
                    rep.violation(
                        &format!("well-formed-document-rejected:{}:{}", class, e.split(" @ ").last().unwrap_or("").chars().take(40).collect::<String>()),
                        &format!("rendering '{}' of a generated document is rejected: {}", class, e.chars().take(200).collect::<String>()),
                        w,
                    );
                    continue;
                }
            };
            let got = strip_counts(dump(&fsm, &CanonOpts { for_roundtrip: false }));
            // (a) against the independent reading of the tree
            if let Some(d) = diff(&want, &got, "model") {
                let field = d.split(':').next().unwrap_or("").rsplit('.').next().unwrap_or("").trim_end_matches(|c: char| c == ']' || c.is_ascii_digit() || c == '[').to_string();
                rep.violation(
                    &format!("model-differs-from-document:{}:{}", class, field),
                    &format!("rendering '{}': the model does not mirror the document: {}", class, d),
                    w.clone(),
                );
                continue;
            }
            // (b) against the base rendering
            match &base_dump {
                None => base_dump = Some(got),
                Some(b) => {
                    if let Some(d) = diff(b, &got, "model") {
                        rep.violation(&format!("lexical-variant-changes-model:{}", class), &format!("rendering '{}' gives a different model than the plain rendering: {}", class, d), w);
                    }
                }
            }
        }
        if nontrivial {
            rep.nontrivial_key(&format!("{:x}", crate::rng::fnv(&want.to_string())));
        }
        if stats.nested_elseif {
            rep.count("documents_with_elseif_chains", 1);
        }
        if stats.invoke {
            rep.count("documents_with_invoke", 1);
        }
        if stats.donedata {
            rep.count("documents_with_donedata", 1);
        }
        if rep.samples.len() < rep.max_samples && stats.nested_elseif {
            let (xml, _) = render(&tree, &Style { spacing: 1, ..Style::default() }, &mut rng);
            rep.sample(json!({"xml": xml}));
        }
    }
    let _ = std::fs::remove_dir_all(&dir);
    for _ in crate::phook::take_panics() {}
}
