//! C03 – run to completion: internal work finishes before the next external event.
use crate::docgen::*;
use crate::report::{Args, Report};
use crate::structural::*;

pub fn run(args: &Args, rep: &mut Report) {
    let mut w = Workload::new(args, rep, Focus::Rtc);
    let dms: Vec<Dm> = if cfg!(feature = "full") { vec![Dm::Rfsm, Dm::Rfsm, Dm::Ecma] } else { vec![Dm::Rfsm] };
    let tune = |o: &mut GenOpts| {
        o.w_raise = 6;
        o.w_self_send = 3;
        o.w_eventless = 2;
        o.w_final = 2;
        o.w_if = 2;
        o.w_cond = 3;
        o.w_parallel = 3;
    };
    for (mode, salt) in [(false, 31u64), (true, 32u64)] {
        w.prequeue = mode;
        let n = args.scale(120, 1500);
        let mut rng = args.rng(salt);
        // eventless transitions whose guard is changed by targetless transitions / sibling regions
        for d in 0..args.scale(10, 150) {
            if crate::report::should_stop() {
                break;
            }
            let (doc, paths) = crate::corpus::guarded_eventless(&mut rng, d);
            if let Ok(f) = crate::refsim::Flat::from_doc(&doc) {
                for p in &paths {
                    if w.run_one(&doc, &f, p, false) {
                        w.rep.nontrivial_key(&format!("{}:{}", mode, distinct_key(&doc, p)));
                    }
                }
            }
        }
        for d in 0..n {
            if crate::report::should_stop() {
                break;
            }
            let dm = dms[d % dms.len()];
            let mut o = GenOpts::structural(dm, args.thorough());
            tune(&mut o);
            let doc = generate(&mut rng, &o, &format!("q{}", d));
            let f = match crate::refsim::Flat::from_doc(&doc) {
                Ok(f) => f,
                Err(_) => continue,
            };
            let alpha = alphabet(&o);
            for _ in 0..3 {
                let len = 2 + rng.below(if args.thorough() { 20 } else { 9 });
                let path = guided_path(&f, &alpha, len, &mut rng);
                if w.run_one(&doc, &f, &path, false) && w.last_nontrivial {
                    w.rep.nontrivial_key(&format!("{}:{}", mode, distinct_key(&doc, &path)));
                }
            }
        }
    }
    w.flush_legality();
    let q = &w.qstats;
    w.rep.count("internal_events_raised", q.internal_events_raised);
    w.rep.count("internal_events_consumed", q.internal_events_consumed);
    w.rep.count("external_events_consumed", q.external_events_consumed);
    w.rep.count("self_sent_external_events", q.self_sent_external);
    w.rep.count("max_pending_internal_events", q.max_pending_internal);
}
