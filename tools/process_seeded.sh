#!/bin/bash
# tools/process_seeded.sh Cxx [extra checks…]: verify tests, confirm demo, run checks for the sub-agent output in /tmp/mut/out${R}-Cxx
c=$1; shift
R=${R:-}
cd /verif
echo "=== $c"
tools/verify_seeded.sh /tmp/mut/out$R-$c/patch.diff
ex=$(ls /tmp/mut/out$R-$c/*.rs | head -1 | xargs basename | sed 's/\.rs$//')
tools/confirm_demo.sh /tmp/mut/wt$R-$c /tmp/mut/out$R-$c/patch.diff $ex
tools/try_seeded.sh /tmp/mut/out$R-$c/patch.diff $c "$@" 2>&1 | tail -14
