//! `rv replay <witness.json>`: re-executes the recorded failing input against the real code and says whether the
//! violation shows again.  Exit 1 = reproduced, 0 = not reproduced, 3 = this kind of witness has no direct replay
//! (the driver then re-runs the check with the recorded seed and looks for the same key).
use serde_json::Value;

fn strs(v: &Value) -> Vec<String> {
    v.as_array().map(|a| a.iter().filter_map(|x| x.as_str().map(|s| s.to_string())).collect()).unwrap_or_default()
}

pub fn main(file: &str) -> i32 {
    let text = match std::fs::read_to_string(file) {
        Ok(t) => t,
        Err(e) => {
            println!("cannot read {}: {}", file, e);
            return 2;
        }
    };
    let v: Value = match serde_json::from_str(&text) {
        Ok(v) => v,
        Err(e) => {
            println!("not a witness file: {}", e);
            return 2;
        }
    };
    let prop = v["property"].as_str().unwrap_or("?");
    let key = v["key"].as_str().unwrap_or("?");
    let w = &v["witness"];
    println!("replay property={} key={}", prop, key);
    println!("recorded: {}", v["what"].as_str().unwrap_or(""));
    // (1) a document run: XML + event sequence (+ expected trace of the reference interpreter)
    if let (Some(xml), Some(_)) = (w["xml"].as_str(), w["events"].as_array()) {
        if w["kind"].as_str() == Some("document-run") || w["family"].as_str() == Some("invoke-step-error") {
            let events = strs(&w["events"]);
            let prequeued = w["prequeued"].as_bool().unwrap_or(false) || xml.contains("gate(1)");
            let out = crate::structural::run_real_mode(xml, &events, prequeued);
            println!("status: {:?}  session thread panicked: {}", out.res.status, out.res.session_thread_panicked);
            let expected = strs(&w["expected_trace"]);
            let mut st = crate::monitors::QueueStats::default();
            let q = crate::monitors::queue_discipline(&out.res, &mut st);
            let trace_kind = key.starts_with("diverge") || key.starts_with("nondeterministic");
            if !expected.is_empty() && (trace_kind || prop == "C02" || prop == "C08") {
                match crate::session::first_divergence(&expected, &out.observed) {
                    Some((i, e, o)) => {
                        println!("trace differs from the reference at line {}: expected `{}`, observed `{}`", i, e, o);
                        return 1;
                    }
                    None => println!("observed trace equals the recorded reference trace ({} lines)", expected.len()),
                }
            }
            if let Err((k, what)) = q {
                println!("queue monitor: {} ({})", what, k);
                return 1;
            }
            if out.res.session_thread_panicked || out.res.status != crate::session::RunStatus::Completed {
                return 1;
            }
            for l in out.observed.iter().take(60) {
                println!("  {}", l);
            }
            // model-free monitors that need the document tree cannot be re-applied from the XML alone
            return if expected.is_empty() || !trace_kind { 3 } else { 0 };
        }
    }
    // (2) an expression
    if let Some(expr) = w["expression"].as_str() {
        if prop == "C11" {
            let entry = w["entry"].as_str().unwrap_or("ParseExecute");
            crate::lockmon::set_level(1);
            crate::lockmon::set_panic_on_relock(true);
            let o = crate::c11::run_case(expr, crate::c11::entry_by_name(entry), std::time::Duration::from_secs(20));
            println!("`{}` via {} -> {:?}", expr, entry, o);
            return match o {
                crate::c11::Outcome::Value | crate::c11::Outcome::Error => 0,
                _ => 1,
            };
        }
        let gd = crate::exprrun::new_global(&crate::expr_ref::default_store());
        let real = crate::exprrun::eval_fresh(expr, &gd);
        println!("`{}` evaluates to {}", expr, real.show());
        if let Some(exp) = w["expected"].as_str() {
            println!("expected {}", exp);
            return if real.show() == exp { 0 } else { 1 };
        }
        return 3;
    }
    3
}
