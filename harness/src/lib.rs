//! Runtime-monitoring harness for BWeng20/rFSM (see /verif/DESIGN.md).
pub mod rng;
pub mod report;
pub mod phook;
pub mod expr_ref;
pub mod exprrun;
pub mod c10;
pub mod rec;
pub mod docgen;
pub mod refsim;
pub mod session;
pub mod legality;
pub mod structural;
pub mod c01;
pub mod c02;

use report::{Args, Report};

pub fn dispatch(cmd: &str, args: &Args, rep: &mut Report) -> bool {
    match cmd {
        "C10" => c10::run(args, rep),
        "C01" => c01::run(args, rep),
        "C02" => c02::run(args, rep),
        "try" => trycmd(args),
        _ => return false,
    }
    true
}

pub fn selftests() -> Vec<(&'static str, Result<(), String>)> {
    vec![("expr_ref", c10::selftest())]
}

/// debugging aid: `rv try --seed N [dm]` prints one generated document with expected / observed trace
fn trycmd(args: &Args) {
    use docgen::*;
    let mut rng = args.rng(0);
    let dm = match args.extra.first().map(|s| s.as_str()) {
        Some("null") => Dm::Null,
        Some("ecma") => Dm::Ecma,
        _ => Dm::Rfsm,
    };
    let o = GenOpts::structural(dm, false);
    let (doc, f, path, exp) = loop {
        let doc = generate(&mut rng, &o, "try");
        let f = refsim::Flat::from_doc(&doc).unwrap();
        let path = structural::guided_path(&f, &structural::alphabet(&o), 8, &mut rng);
        let exp = structural::expected_trace(&f, &path);
        if !exp.diverged && exp.stats.microsteps > 2 {
            break (doc, f, path, exp);
        }
    };
    let xml = doc.to_xml();
    println!("{}", xml);
    println!("path: {:?} diverged={}", path, exp.diverged);
    let out = structural::run_real(&xml, &path);
    println!("status: {:?}", out.res.status);
    let n = exp.lines.len().max(out.observed.len());
    for i in 0..n {
        let e = exp.lines.get(i).cloned().unwrap_or_default();
        let o = out.observed.get(i).cloned().unwrap_or_default();
        println!("{:3} {:40} {:40} {}", i, e, o, if e == o { "" } else { "<<<<" });
    }
    let mut st = Default::default();
    println!("legality: {:?}", legality::check(&f, &out.res, &mut st));
}
