//! Canonical dump of a `rufsm::fsm::Fsm`, keyed by names and document positions (never ids).
use rufsm::datamodel::Data;
use rufsm::executable_content::{Assign, Cancel, ExecutableContent, Expression, ForEach, If, Log, Raise, Script, SendParameters};
use rufsm::fsm::{CommonContent, ExecutableContentId, Fsm, HistoryType, Parameter, TransitionType};
use serde_json::{json, Map, Value};

fn d(x: &Data) -> Value {
    match x {
        Data::Source(s) => json!(s.source),
        Data::None() => Value::Null,
        Data::Null() => Value::Null,
        Data::String(s) => json!(s),
        Data::Integer(i) => json!(i),
        Data::Double(f) => json!(f),
        Data::Boolean(b) => json!(b),
        other => json!(other.to_string()),
    }
}

/// text of an expression-ish attribute ("" when absent)
fn dt(x: &Data) -> Value {
    match d(x) {
        Value::Null => json!(""),
        v => v,
    }
}

fn params(p: &Option<Vec<Parameter>>) -> Value {
    match p {
        None => json!([]),
        Some(v) => Value::Array(v.iter().map(|x| json!({"name": x.name, "expr": x.expr, "location": x.location})).collect()),
    }
}

fn content(c: &Option<CommonContent>) -> Value {
    match c {
        None => Value::Null,
        Some(c) => json!({"text": c.content, "expr": c.content_expr}),
    }
}

pub fn body(fsm: &Fsm, id: ExecutableContentId, depth: usize) -> Value {
    if id == 0 {
        return json!([]);
    }
    if depth > 50 {
        return json!("<too deep>");
    }
    match fsm.executableContent.get(&id) {
        None => json!(format!("<missing content #{}>", id)),
        Some(items) => Value::Array(items.iter().map(|e| item(fsm, e.as_ref(), depth)).collect()),
    }
}

fn item(fsm: &Fsm, e: &dyn ExecutableContent, depth: usize) -> Value {
    let a = e.as_any();
    if let Some(x) = a.downcast_ref::<If>() {
        // flatten the else-if chain: else_content that consists of exactly one If created by <elseif>
        // cannot be told apart from <else><if>…</if></else>; keep the nested form (both sides do)
        return json!({"if": dt(&x.condition), "then": body(fsm, x.content, depth + 1), "else": body(fsm, x.else_content, depth + 1)});
    }
    if let Some(x) = a.downcast_ref::<Expression>() {
        return json!({"script": dt(&x.content)});
    }
    if let Some(x) = a.downcast_ref::<Script>() {
        return json!({"scriptlist": x.content.iter().map(|c| body(fsm, *c, depth + 1)).collect::<Vec<_>>()});
    }
    if let Some(x) = a.downcast_ref::<Log>() {
        return json!({"log": dt(&x.expression), "label": x.label});
    }
    if let Some(x) = a.downcast_ref::<ForEach>() {
        return json!({"foreach": dt(&x.array), "item": x.item, "index": x.index, "body": body(fsm, x.content, depth + 1)});
    }
    if let Some(x) = a.downcast_ref::<Raise>() {
        return json!({"raise": x.event});
    }
    if let Some(x) = a.downcast_ref::<Assign>() {
        return json!({"assign": dt(&x.location), "expr": dt(&x.expr)});
    }
    if let Some(x) = a.downcast_ref::<Cancel>() {
        return json!({"cancel": x.send_id, "sendidexpr": dt(&x.send_id_expr)});
    }
    if let Some(x) = a.downcast_ref::<SendParameters>() {
        return json!({"send": {
            "id": x.name, "idlocation": x.name_location,
            "event": dt(&x.event), "eventexpr": dt(&x.event_expr),
            "target": dt(&x.target), "targetexpr": dt(&x.target_expr),
            "type": dt(&x.type_value), "typeexpr": dt(&x.type_expr),
            "delay_ms": x.delay_ms, "delayexpr": dt(&x.delay_expr),
            "namelist": x.name_list, "params": params(&x.params), "content": content(&x.content),
        }});
    }
    json!(format!("<unknown content type {}>", e.get_type()))
}

pub struct CanonOpts {
    /// ignore what the binary format does not persist by design
    pub for_roundtrip: bool,
}

pub fn dump(fsm: &Fsm, o: &CanonOpts) -> Value {
    let name_of = |id: u32| -> Value {
        if id == 0 {
            return Value::Null;
        }
        match fsm.states.get((id - 1) as usize) {
            Some(s) => json!(s.name),
            None => json!(format!("<bad state id {}>", id)),
        }
    };
    let trans = |tid: u32| -> Value {
        if tid == 0 {
            return Value::Null;
        }
        match fsm.transitions.get(&tid) {
            None => json!(format!("<missing transition {}>", tid)),
            Some(t) => json!({
                "events": t.events,
                "wildcard": t.wildcard,
                "cond": dt(&t.cond),
                "targets": t.target.iter().map(|x| name_of(*x)).collect::<Vec<_>>(),
                "type": match t.transition_type { TransitionType::Internal => "internal", TransitionType::External => "external" },
                "body": body(fsm, t.content, 0),
                "source": name_of(t.source),
            }),
        }
    };
    // states in document order
    let mut order: Vec<usize> = (0..fsm.states.len()).collect();
    order.sort_by_key(|&i| fsm.states[i].doc_id);
    let mut states = Vec::new();
    for (rank, &i) in order.iter().enumerate() {
        let s = &fsm.states[i];
        let kind = if s.history_type == HistoryType::Deep {
            "history-deep"
        } else if s.history_type == HistoryType::Shallow {
            "history-shallow"
        } else if s.is_final {
            "final"
        } else if s.is_parallel {
            "parallel"
        } else {
            "state"
        };
        let mut data = Map::new();
        let mut keys: Vec<&String> = s.data.keys().collect();
        keys.sort();
        for k in keys {
            let v = match s.data[k].lock() {
                Ok(g) => d(&g),
                Err(_) => json!("<poisoned>"),
            };
            data.insert(k.clone(), v);
        }
        let invokes: Vec<Value> = s
            .invoke
            .iterator()
            .map(|inv| {
                let mut m = json!({
                    "id": inv.invoke_id, "idlocation": inv.external_id_location,
                    "type": dt(&inv.type_name), "typeexpr": dt(&inv.type_expr),
                    "src": dt(&inv.src), "srcexpr": dt(&inv.src_expr),
                    "autoforward": inv.autoforward, "namelist": inv.name_list,
                    "params": params(&inv.params), "content": content(&inv.content),
                    "finalize": body(fsm, inv.finalize, 0),
                });
                if !o.for_roundtrip || inv.invoke_id.is_empty() {
                    m["parent_state_name"] = json!(inv.parent_state_name);
                }
                m
            })
            .collect();
        let donedata = match &s.donedata {
            None => Value::Null,
            Some(dd) => json!({"params": params(&dd.params), "content": content(&dd.content)}),
        };
        states.push(json!({
            "rank": rank,
            "name": s.name,
            "kind": kind,
            "declared": s.doc_id != 0,
            "parent": name_of(s.parent),
            "children": s.states.iter().map(|c| name_of(*c)).collect::<Vec<_>>(),
            "histories": s.history.iterator().map(|c| name_of(*c)).collect::<Vec<_>>(),
            "initial": trans(s.initial),
            "onentry": s.onentry.iter().map(|c| body(fsm, *c, 0)).collect::<Vec<_>>(),
            "onexit": s.onexit.iter().map(|c| body(fsm, *c, 0)).collect::<Vec<_>>(),
            "transitions": s.transitions.iterator().map(|t| trans(*t)).collect::<Vec<_>>(),
            "data": Value::Object(data),
            "invokes": invokes,
            "donedata": donedata,
        }));
    }
    json!({
        "name": fsm.name,
        "datamodel": fsm.datamodel,
        "binding": format!("{:?}", fsm.binding),
        "root": name_of(fsm.pseudo_root),
        "script": body(fsm, fsm.script, 0),
        "states": states,
        "n_transitions": fsm.transitions.len(),
        "n_content_blocks": fsm.executableContent.len(),
    })
}

/// first difference between two JSON values as a path
pub fn diff(a: &Value, b: &Value, path: &str) -> Option<String> {
    match (a, b) {
        (Value::Object(x), Value::Object(y)) => {
            for (k, v) in x {
                match y.get(k) {
                    None => return Some(format!("{}.{}: missing on the right", path, k)),
                    Some(w) => {
                        if let Some(d) = diff(v, w, &format!("{}.{}", path, k)) {
                            return Some(d);
                        }
                    }
                }
            }
            for k in y.keys() {
                if !x.contains_key(k) {
                    return Some(format!("{}.{}: missing on the left", path, k));
                }
            }
            None
        }
        (Value::Array(x), Value::Array(y)) => {
            if x.len() != y.len() {
                return Some(format!("{}: length {} vs {}", path, x.len(), y.len()));
            }
            for (i, (v, w)) in x.iter().zip(y.iter()).enumerate() {
                if let Some(d) = diff(v, w, &format!("{}[{}]", path, i)) {
                    return Some(d);
                }
            }
            None
        }
        _ => {
            if a == b {
                None
            } else {
                let sa: String = a.to_string().chars().take(120).collect();
                let sb: String = b.to_string().chars().take(120).collect();
                Some(format!("{}: {} vs {}", path, sa, sb))
            }
        }
    }
}
