//! Statechart AST, seeded generator and XML renderer.
//! The AST is the single source for the XML given to the real reader and for the reference
//! interpreter (`refsim`), so both see the same document by construction of the renderer.

use crate::rng::Rng;

#[derive(Clone, Copy, Debug, PartialEq, Eq)]
pub enum Dm {
    Null,
    Rfsm,
    Ecma,
}

impl Dm {
    pub fn name(self) -> &'static str {
        match self {
            Dm::Null => "null",
            Dm::Rfsm => "rfsm-expression",
            Dm::Ecma => "ecmascript",
        }
    }
}

#[derive(Clone, Copy, Debug, PartialEq, Eq)]
pub enum CmpOp {
    Eq,
    Ne,
    Lt,
    Ge,
}

#[derive(Clone, Debug, PartialEq)]
pub enum Cond {
    True,
    In(String),
    Not(Box<Cond>),
    And(Box<Cond>, Box<Cond>),
    Cmp(String, CmpOp, i64),
    /// an expression whose evaluation fails (undeclared variable)
    Bad,
    /// `mark('in', …) & (inner)` – In() probe evaluated during transition selection
    Probed(Vec<String>, Box<Cond>),
}

#[derive(Clone, Debug, PartialEq)]
pub enum Expr {
    Const(i64),
    Var(String),
    /// var + k
    Add(String, i64),
    /// fails (undeclared variable)
    Bad,
    /// verbatim expression text with the integer value the reference expects (e.g. `_event.data.p`)
    Raw(String, i64),
    /// text that cannot be parsed (fails at evaluation time like `Bad`)
    BadSyntax(u8),
}

#[derive(Clone, Debug, PartialEq)]
pub enum BadSend {
    EventExpr,
    TargetExpr,
    DelayExpr,
    Namelist,
    TypeUnknown,
    TargetMalformed,
}

#[derive(Clone, Debug, PartialEq)]
pub enum Stmt {
    /// `mark(tag, args…)`
    Mark(String, Vec<Expr>),
    Raise(String),
    Assign(String, Expr),
    /// `<assign location="arr[k]" expr=…>`: assignment to an element of a declared array (k inside the array)
    AssignElem(String, usize, Expr),
    If(Vec<(Cond, Block)>, Option<Block>),
    /// array variable or literal
    Foreach {
        array: ArrSrc,
        item: String,
        index: Option<String>,
        body: Block,
    },
    Log(Expr),
    Script(Expr),
    /// `<send event target="#_internal"/>`
    SendInternal(String),
    /// `<send event/>` – own external queue
    SendSelf(String),
    /// a send whose argument evaluation fails / is unsupported
    SendBad(BadSend),
    /// assignment to an undeclared location
    AssignUndeclared,
    /// assignment whose location expression cannot be parsed
    AssignBadLocation,
    /// `<send event targetexpr="'#_scxml_' + _sessionid"/>` – own external queue, addressed by session id
    SendSelfById(String),
    /// `gate(n)` probe
    Gate(i64),
    /// `mark('in', 's1', In('s1'), …)` – In() probe over the listed states (no reference line)
    InProbe(Vec<String>),
}

#[derive(Clone, Debug, PartialEq)]
pub enum ArrSrc {
    Var(String),
    Lit(Vec<i64>),
    /// an integer variable (not iterable)
    NotArray(String),
    /// fails to evaluate
    Bad,
}

pub type Block = Vec<Stmt>;

#[derive(Clone, Debug, PartialEq)]
pub enum Kind {
    State,
    Parallel,
    Final,
    History { deep: bool },
}

#[derive(Clone, Debug, PartialEq)]
pub struct Trans {
    pub events: Vec<String>,
    pub cond: Cond,
    pub targets: Vec<String>,
    pub internal: bool,
    pub body: Block,
    /// "<state>.<ordinal>"
    pub uid: String,
}

#[derive(Clone, Debug, PartialEq)]
pub struct Initial {
    pub targets: Vec<String>,
    pub as_element: bool,
    pub body: Block,
}

#[derive(Clone, Debug, PartialEq)]
pub struct Node {
    pub id: String,
    pub kind: Kind,
    pub children: Vec<Node>,
    pub initial: Option<Initial>,
    pub onentry: Vec<Block>,
    pub onexit: Vec<Block>,
    pub trans: Vec<Trans>,
    /// raw XML children appended verbatim (invoke, donedata, datamodel …) – opaque to refsim
    pub extra_xml: Vec<String>,
}

impl Node {
    pub fn new(id: &str, kind: Kind) -> Node {
        Node {
            id: id.to_string(),
            kind,
            children: vec![],
            initial: None,
            onentry: vec![],
            onexit: vec![],
            trans: vec![],
            extra_xml: vec![],
        }
    }
    pub fn is_history(&self) -> bool {
        matches!(self.kind, Kind::History { .. })
    }
    pub fn real_children(&self) -> impl Iterator<Item = &Node> {
        self.children.iter().filter(|c| !c.is_history())
    }
    pub fn is_atomic(&self) -> bool {
        !self.is_history() && self.real_children().next().is_none()
    }
    pub fn is_compound(&self) -> bool {
        self.kind == Kind::State && !self.is_atomic()
    }
    pub fn walk<'a>(&'a self, f: &mut dyn FnMut(&'a Node)) {
        f(self);
        for c in &self.children {
            c.walk(f);
        }
    }
    pub fn walk_mut(&mut self, f: &mut dyn FnMut(&mut Node)) {
        f(self);
        for c in &mut self.children {
            c.walk_mut(f);
        }
    }
}

#[derive(Clone, Debug, PartialEq)]
pub struct Doc {
    pub name: String,
    pub dm: Dm,
    pub late: bool,
    /// top-level states; the <scxml> element itself is `root`
    pub root: Node,
    pub vars: Vec<(String, i64)>,
    pub arrays: Vec<(String, Vec<i64>)>,
    /// global <script> block
    pub script: Block,
}

impl Doc {
    pub fn all_nodes(&self) -> Vec<&Node> {
        let mut v = Vec::new();
        self.root.walk(&mut |n| v.push(n));
        v
    }
    pub fn state_ids(&self) -> Vec<String> {
        self.all_nodes().iter().skip(1).map(|n| n.id.clone()).collect()
    }
}

// ---------------------------------------------------------------------------------------------
// Rendering

pub fn xml_escape(s: &str) -> String {
    s.replace('&', "&amp;").replace('<', "&lt;").replace('>', "&gt;").replace('"', "&quot;")
}

pub fn in_probe_call(states: &[String]) -> String {
    let mut a = String::from("mark('in'");
    for s in states {
        a.push_str(&format!(", '{}', In('{}')", s, s));
    }
    a.push(')');
    a
}

pub fn render_cond(c: &Cond, dm: Dm) -> String {
    match c {
        Cond::Probed(states, inner) => format!(
            "{} {} ({})",
            in_probe_call(states),
            if dm == Dm::Ecma { "&&" } else { "&" },
            render_cond(inner, dm)
        ),
        Cond::True => "true".to_string(),
        Cond::In(s) => format!("In('{}')", s),
        Cond::Not(x) => format!("!({})", render_cond(x, dm)),
        Cond::And(a, b) => format!(
            "({}) {} ({})",
            render_cond(a, dm),
            if dm == Dm::Ecma { "&&" } else { "&" },
            render_cond(b, dm)
        ),
        Cond::Cmp(v, op, k) => format!(
            "{} {} {}",
            v,
            match op {
                CmpOp::Eq => "==",
                CmpOp::Ne => "!=",
                CmpOp::Lt => "<",
                CmpOp::Ge => ">=",
            },
            k
        ),
        Cond::Bad => "undeclared_cond_var == 1".to_string(),
    }
}

pub fn render_expr(e: &Expr) -> String {
    match e {
        Expr::Const(k) => k.to_string(),
        Expr::Var(v) => v.clone(),
        Expr::Add(v, k) => format!("{} + {}", v, k),
        Expr::Bad => "undeclared_expr_var + 1".to_string(),
        Expr::Raw(t, _) => t.clone(),
        // malformed in both expression languages (probed: `(v0 + 1` is accepted by rfsm-expression and
        // `v0=v0 +` by the ECMAScript engine, so those are not used)
        Expr::BadSyntax(k) => ["1 + * 2", ")", "v0 v0", "* 3", "[1, 2"][*k as usize % 5].to_string(),
    }
}

fn render_block(b: &Block, dm: Dm, out: &mut String, ind: usize) {
    let pad = " ".repeat(ind);
    for s in b {
        match s {
            Stmt::Mark(tag, args) => {
                let mut a = format!("'{}'", tag);
                for x in args {
                    a.push_str(", ");
                    a.push_str(&render_expr(x));
                }
                out.push_str(&format!("{}<script>mark({})</script>\n", pad, xml_escape(&a)));
            }
            Stmt::Gate(n) => out.push_str(&format!("{}<script>gate({})</script>\n", pad, n)),
            Stmt::InProbe(states) => out.push_str(&format!("{}<script>{}</script>\n", pad, xml_escape(&in_probe_call(states)))),
            Stmt::Raise(e) => out.push_str(&format!("{}<raise event=\"{}\"/>\n", pad, e)),
            Stmt::Assign(v, e) => out.push_str(&format!(
                "{}<assign location=\"{}\" expr=\"{}\"/>\n",
                pad,
                v,
                xml_escape(&render_expr(e))
            )),
            Stmt::AssignElem(a, k, e) => out.push_str(&format!(
                "{}<assign location=\"{}[{}]\" expr=\"{}\"/>\n",
                pad,
                a,
                k,
                xml_escape(&render_expr(e))
            )),
            Stmt::AssignUndeclared => {
                out.push_str(&format!("{}<assign location=\"undeclared_location\" expr=\"1\"/>\n", pad))
            }
            Stmt::AssignBadLocation => out.push_str(&format!("{}<assign location=\"v0[\" expr=\"1\"/>\n", pad)),
            Stmt::SendSelfById(e) => out.push_str(&format!("{}<send event=\"{}\" targetexpr=\"'#_scxml_' + _sessionid\"/>\n", pad, e)),
            Stmt::If(branches, els) => {
                for (i, (c, blk)) in branches.iter().enumerate() {
                    if i == 0 {
                        out.push_str(&format!("{}<if cond=\"{}\">\n", pad, xml_escape(&render_cond(c, dm))));
                    } else {
                        out.push_str(&format!("{}<elseif cond=\"{}\"/>\n", pad, xml_escape(&render_cond(c, dm))));
                    }
                    render_block(blk, dm, out, ind + 2);
                }
                if let Some(e) = els {
                    out.push_str(&format!("{}<else/>\n", pad));
                    render_block(e, dm, out, ind + 2);
                }
                out.push_str(&format!("{}</if>\n", pad));
            }
            Stmt::Foreach { array, item, index, body } => {
                let arr = match array {
                    ArrSrc::Var(v) | ArrSrc::NotArray(v) => v.clone(),
                    ArrSrc::Lit(l) => format!("[{}]", l.iter().map(|x| x.to_string()).collect::<Vec<_>>().join(",")),
                    ArrSrc::Bad => "undeclared_array_var".to_string(),
                };
                let idx = match index {
                    Some(i) => format!(" index=\"{}\"", i),
                    None => String::new(),
                };
                out.push_str(&format!("{}<foreach array=\"{}\" item=\"{}\"{}>\n", pad, arr, item, idx));
                render_block(body, dm, out, ind + 2);
                out.push_str(&format!("{}</foreach>\n", pad));
            }
            Stmt::Log(e) => out.push_str(&format!("{}<log label=\"l\" expr=\"{}\"/>\n", pad, xml_escape(&render_expr(e)))),
            Stmt::Script(e) => out.push_str(&format!("{}<script>{}</script>\n", pad, xml_escape(&render_expr(e)))),
            Stmt::SendInternal(e) => out.push_str(&format!("{}<send event=\"{}\" target=\"#_internal\"/>\n", pad, e)),
            Stmt::SendSelf(e) => out.push_str(&format!("{}<send event=\"{}\"/>\n", pad, e)),
            Stmt::SendBad(k) => {
                let x = match k {
                    BadSend::EventExpr => "<send eventexpr=\"undeclared_send_var\"/>".to_string(),
                    BadSend::TargetExpr => "<send event=\"never\" targetexpr=\"undeclared_send_var\"/>".to_string(),
                    BadSend::DelayExpr => "<send event=\"never\" delayexpr=\"undeclared_send_var\"/>".to_string(),
                    BadSend::Namelist => "<send event=\"never\" namelist=\"undeclared_send_var\"/>".to_string(),
                    BadSend::TypeUnknown => "<send event=\"never\" type=\"no-such-io-processor\"/>".to_string(),
                    BadSend::TargetMalformed => "<send event=\"never\" target=\"!not a target\"/>".to_string(),
                };
                out.push_str(&format!("{}{}\n", pad, x));
            }
        }
    }
}

fn block_nonempty(b: &Block) -> bool {
    !b.is_empty()
}

fn render_node(n: &Node, doc: &Doc, out: &mut String, ind: usize) {
    let pad = " ".repeat(ind);
    let dm = doc.dm;
    let content = dm != Dm::Null;
    let tag = match n.kind {
        Kind::State => "state",
        Kind::Parallel => "parallel",
        Kind::Final => "final",
        Kind::History { .. } => "history",
    };
    let mut attrs = format!(" id=\"{}\"", n.id);
    if let Kind::History { deep } = n.kind {
        attrs.push_str(if deep { " type=\"deep\"" } else { " type=\"shallow\"" });
    }
    if let Some(i) = &n.initial {
        if !i.as_element {
            attrs.push_str(&format!(" initial=\"{}\"", i.targets.join(" ")));
        }
    }
    out.push_str(&format!("{}<{}{}>\n", pad, tag, attrs));
    if let Some(i) = &n.initial {
        if i.as_element {
            out.push_str(&format!("{}  <initial>\n{}    <transition target=\"{}\">\n", pad, pad, i.targets.join(" ")));
            if content {
                render_block(&i.body, dm, out, ind + 6);
            }
            out.push_str(&format!("{}    </transition>\n{}  </initial>\n", pad, pad));
        }
    }
    for b in &n.onentry {
        out.push_str(&format!("{}  <onentry>\n", pad));
        if content {
            render_block(b, dm, out, ind + 4);
        }
        out.push_str(&format!("{}  </onentry>\n", pad));
    }
    for b in &n.onexit {
        out.push_str(&format!("{}  <onexit>\n", pad));
        if content {
            render_block(b, dm, out, ind + 4);
        }
        out.push_str(&format!("{}  </onexit>\n", pad));
    }
    for t in &n.trans {
        let mut a = String::new();
        if !t.events.is_empty() {
            a.push_str(&format!(" event=\"{}\"", t.events.join(" ")));
        }
        if t.cond != Cond::True {
            a.push_str(&format!(" cond=\"{}\"", xml_escape(&render_cond(&t.cond, dm))));
        }
        if !t.targets.is_empty() {
            a.push_str(&format!(" target=\"{}\"", t.targets.join(" ")));
        }
        if t.internal {
            a.push_str(" type=\"internal\"");
        }
        if content && block_nonempty(&t.body) {
            out.push_str(&format!("{}  <transition{}>\n", pad, a));
            render_block(&t.body, dm, out, ind + 4);
            out.push_str(&format!("{}  </transition>\n", pad));
        } else {
            out.push_str(&format!("{}  <transition{}/>\n", pad, a));
        }
    }
    for x in &n.extra_xml {
        out.push_str(&format!("{}  {}\n", pad, x));
    }
    for c in &n.children {
        render_node(c, doc, out, ind + 2);
    }
    out.push_str(&format!("{}</{}>\n", pad, tag));
}

impl Doc {
    pub fn to_xml(&self) -> String {
        let mut out = String::new();
        let mut attrs = format!(
            " xmlns=\"http://www.w3.org/2005/07/scxml\" version=\"1.0\" name=\"{}\" datamodel=\"{}\"",
            self.name,
            self.dm.name()
        );
        if self.late {
            attrs.push_str(" binding=\"late\"");
        }
        if let Some(i) = &self.root.initial {
            attrs.push_str(&format!(" initial=\"{}\"", i.targets.join(" ")));
        }
        out.push_str(&format!("<scxml{}>\n", attrs));
        if self.dm != Dm::Null && (!self.vars.is_empty() || !self.arrays.is_empty()) {
            out.push_str("  <datamodel>\n");
            for (v, k) in &self.vars {
                out.push_str(&format!("    <data id=\"{}\" expr=\"{}\"/>\n", v, k));
            }
            for (v, a) in &self.arrays {
                out.push_str(&format!(
                    "    <data id=\"{}\" expr=\"[{}]\"/>\n",
                    v,
                    a.iter().map(|x| x.to_string()).collect::<Vec<_>>().join(",")
                ));
            }
            out.push_str("  </datamodel>\n");
        }
        if self.dm != Dm::Null && !self.script.is_empty() {
            // the reader takes one <script> child of <scxml> as the global script
            let mut s = String::new();
            for st in &self.script {
                let part = match st {
                    Stmt::Mark(tag, _) => format!("mark('{}')", tag),
                    Stmt::Gate(n) => format!("gate({})", n),
                    _ => continue,
                };
                if !s.is_empty() {
                    s.push_str("; ");
                }
                s.push_str(&part);
            }
            out.push_str(&format!("  <script>{}</script>\n", xml_escape(&s)));
        }
        for x in &self.root.extra_xml {
            out.push_str(&format!("  {}\n", x));
        }
        for c in &self.root.children {
            render_node(c, self, &mut out, 2);
        }
        out.push_str("</scxml>\n");
        out
    }
}

// ---------------------------------------------------------------------------------------------
// Generation

#[derive(Clone, Debug)]
pub struct GenOpts {
    pub max_states: usize,
    pub max_depth: usize,
    pub events: Vec<String>,
    pub dm: Dm,
    /// weights 0..8
    pub w_parallel: u32,
    pub w_history: u32,
    pub w_final: u32,
    pub w_eventless: u32,
    pub w_raise: u32,
    pub w_multi_target: u32,
    pub w_internal: u32,
    pub w_targetless: u32,
    pub w_errors: u32,
    pub w_foreach: u32,
    pub w_if: u32,
    pub w_self_send: u32,
    pub w_cond: u32,
}

impl GenOpts {
    pub fn structural(dm: Dm, thorough: bool) -> GenOpts {
        GenOpts {
            max_states: if thorough { 14 } else { 8 },
            max_depth: if thorough { 4 } else { 3 },
            // one name extends another by a token: the descriptor `e1` also matches the event `e1.a` (token prefix)
            events: ["e1", "e2", "e3", "e1.a"].iter().map(|s| s.to_string()).collect(),
            dm,
            w_parallel: 3,
            w_history: 2,
            w_final: 2,
            w_eventless: 1,
            w_raise: 1,
            w_multi_target: 2,
            w_internal: 2,
            w_targetless: 1,
            w_errors: 0,
            w_foreach: 0,
            w_if: 1,
            w_self_send: 0,
            w_cond: 2,
        }
    }
}

struct Gen<'a> {
    rng: &'a mut Rng,
    o: &'a GenOpts,
    next_id: usize,
    mark_seq: usize,
    budget: usize,
    /// nesting depth of <foreach> bodies being generated (elements are not assigned while an array is iterated:
    /// the property does not say what an iteration sees of that)
    foreach_depth: usize,
}

impl<'a> Gen<'a> {
    fn fresh(&mut self, p: &str) -> String {
        self.next_id += 1;
        format!("{}{}", p, self.next_id)
    }

    fn w(&mut self, weight: u32) -> bool {
        weight > 0 && self.rng.chance(weight, 8)
    }

    fn gen_children(&mut self, parent: &mut Node, depth: usize) {
        let is_par = parent.kind == Kind::Parallel;
        let want = if is_par { 2 + self.rng.below(2) } else { 1 + self.rng.below(3) };
        for _ in 0..want {
            if self.budget == 0 {
                break;
            }
            self.budget -= 1;
            let kind = if !is_par && self.w(self.o.w_final) {
                Kind::Final
            } else if depth < self.o.max_depth && self.w(self.o.w_parallel) && self.budget >= 2 {
                Kind::Parallel
            } else {
                Kind::State
            };
            let prefix = match kind {
                Kind::Final => "f",
                Kind::Parallel => "p",
                _ => "s",
            };
            let mut n = Node::new(&self.fresh(prefix), kind.clone());
            let compound = match kind {
                Kind::Parallel => true,
                Kind::State => depth < self.o.max_depth && self.budget >= 1 && self.rng.chance(3, 8),
                _ => false,
            };
            if compound {
                self.gen_children(&mut n, depth + 1);
                if n.kind == Kind::Parallel && n.real_children().count() < 2 {
                    // not enough budget for a real parallel: degrade to a state
                    n.kind = Kind::State;
                }
            }
            parent.children.push(n);
        }
        if is_par {
            // parallel regions must not be final
            for c in &mut parent.children {
                if c.kind == Kind::Final {
                    c.kind = Kind::State;
                }
            }
        }
        // compound with only final children is legal; ensure at least one non-final child first
        if !is_par && parent.children.iter().all(|c| c.kind == Kind::Final) && !parent.children.is_empty() {
            parent.children[0].kind = Kind::State;
        }
    }
}

fn descendants_of<'a>(n: &'a Node, out: &mut Vec<&'a Node>) {
    for c in &n.children {
        out.push(c);
        descendants_of(c, out);
    }
}

/// all legal multi-target specifications below a node: pairs in different regions of one parallel
fn region_pairs(n: &Node, rng: &mut Rng) -> Option<Vec<String>> {
    let mut pars = Vec::new();
    n.walk(&mut |x| {
        if x.kind == Kind::Parallel && x.real_children().count() >= 2 {
            pars.push(x);
        }
    });
    if pars.is_empty() {
        return None;
    }
    let p = pars[rng.below(pars.len())];
    let regions: Vec<&Node> = p.real_children().collect();
    let a = rng.below(regions.len());
    let mut b = rng.below(regions.len());
    if a == b {
        b = (a + 1) % regions.len();
    }
    let pick = |r: &Node, rng: &mut Rng| -> String {
        let mut d = vec![r];
        let mut all = Vec::new();
        descendants_of(r, &mut all);
        for x in all {
            if !x.is_history() {
                d.push(x);
            }
        }
        d[rng.below(d.len())].id.clone()
    };
    Some(vec![pick(regions[a], rng), pick(regions[b], rng)])
}

pub fn generate(rng: &mut Rng, o: &GenOpts, name: &str) -> Doc {
    let mut root = Node::new("scxml_root", Kind::State);
    let mut g = Gen {
        rng,
        o,
        next_id: 0,
        mark_seq: 0,
        budget: 0,
        foreach_depth: 0,
    };
    g.budget = 2 + g.rng.below(o.max_states - 1);
    // top level: 1..3 states plus maybe a top-level final
    g.gen_children(&mut root, 1);
    if g.w(o.w_final + 1) {
        let f = Node::new(&g.fresh("f"), Kind::Final);
        root.children.push(f);
    }
    if root.children[0].kind == Kind::Final && root.children.len() > 1 {
        root.children.swap(0, 1);
    }

    // history pseudo states
    let mut hist_count = 0;
    {
        let mut stack: Vec<*mut Node> = vec![&mut root as *mut Node];
        // iterative walk with raw pointers avoided: collect paths instead
        stack.clear();
    }
    fn add_history(n: &mut Node, g: &mut Gen, is_root: bool, hist_count: &mut usize) {
        if !is_root && (n.is_compound() || n.kind == Kind::Parallel) && g.w(g.o.w_history) {
            let deep = g.rng.chance(1, 2);
            let mut h = Node::new(&g.fresh("h"), Kind::History { deep });
            // default transition target
            let targets: Vec<String> = if n.kind == Kind::Parallel {
                // children of the parallel: default is the parallel's regions; a legal spec is one
                // state per region or just one region (completion adds the rest)
                let regs: Vec<&Node> = n.real_children().collect();
                if deep && g.rng.chance(1, 2) {
                    match region_pairs(n, g.rng) {
                        Some(p) => p,
                        None => vec![regs[g.rng.below(regs.len())].id.clone()],
                    }
                } else {
                    vec![regs[g.rng.below(regs.len())].id.clone()]
                }
            } else {
                let kids: Vec<&Node> = n.real_children().collect();
                if deep && g.rng.chance(1, 2) {
                    let mut d = Vec::new();
                    descendants_of(n, &mut d);
                    let d: Vec<&&Node> = d.iter().filter(|x| !x.is_history()).collect();
                    vec![d[g.rng.below(d.len())].id.clone()]
                } else {
                    vec![kids[g.rng.below(kids.len())].id.clone()]
                }
            };
            g.mark_seq += 1;
            h.trans.push(Trans {
                events: vec![],
                cond: Cond::True,
                targets,
                internal: false,
                body: vec![Stmt::Mark(format!("hd:{}", h.id), vec![])],
                uid: format!("{}.0", h.id),
            });
            let pos = g.rng.below(n.children.len() + 1);
            n.children.insert(pos, h);
            *hist_count += 1;
        }
        for c in &mut n.children {
            if !c.is_history() {
                add_history(c, g, false, hist_count);
            }
        }
    }
    add_history(&mut root, &mut g, true, &mut hist_count);

    // ids of all nodes for target selection
    let mut all_ids: Vec<String> = Vec::new();
    let mut hist_ids: Vec<String> = Vec::new();
    root.walk(&mut |n| {
        if n.id != "scxml_root" {
            all_ids.push(n.id.clone());
            if n.is_history() {
                hist_ids.push(n.id.clone());
            }
        }
    });
    let state_names_for_in: Vec<String> = all_ids.iter().filter(|i| !hist_ids.contains(i)).cloned().collect();

    let vars: Vec<(String, i64)> = if o.dm == Dm::Null {
        vec![]
    } else {
        vec![("v0".to_string(), 0), ("v1".to_string(), 1), ("v2".to_string(), 2)]
    };
    let arrays: Vec<(String, Vec<i64>)> = if o.dm == Dm::Null || o.w_foreach == 0 {
        vec![]
    } else {
        vec![("arr0".to_string(), vec![10, 20, 30]), ("arr1".to_string(), vec![])]
    };

    // initial specs, content, transitions
    let root_clone = root.clone();
    fn decorate(n: &mut Node, g: &mut Gen, root: &Node, all_ids: &[String], hist_ids: &[String], in_names: &[String], is_root: bool) {
        let dm = g.o.dm;
        // initial
        if n.is_compound() || is_root {
            let kids: Vec<String> = n.real_children().map(|c| c.id.clone()).collect();
            let choice = g.rng.below(4);
            if choice == 0 || kids.is_empty() {
                n.initial = None; // default: first child in document order
            } else {
                // one child, a deeper descendant, or a region pair
                let mut targets = vec![kids[g.rng.below(kids.len())].clone()];
                if g.w(g.o.w_multi_target) {
                    if let Some(p) = region_pairs(n, g.rng) {
                        targets = p;
                    }
                } else if g.rng.chance(1, 4) {
                    let mut d = Vec::new();
                    descendants_of(n, &mut d);
                    let d: Vec<&&Node> = d.iter().filter(|x| !x.is_history()).collect();
                    if !d.is_empty() {
                        targets = vec![d[g.rng.below(d.len())].id.clone()];
                    }
                }
                // sometimes the state's own history child (default entry then goes through the
                // history's default transition or the recorded value)
                if !is_root && g.rng.chance(1, 6) {
                    if let Some(h) = n.children.iter().find(|c| c.is_history()) {
                        targets = vec![h.id.clone()];
                    }
                }
                let as_element = !is_root && choice >= 2;
                let body = if as_element && dm != Dm::Null {
                    vec![Stmt::Mark(format!("i:{}", n.id), vec![])]
                } else {
                    vec![]
                };
                n.initial = Some(Initial { targets, as_element, body });
            }
            // the first child must not be a history state when the default applies – the reader takes
            // the first <state>/<parallel>/<final> child, history nodes are not in `states`
        }
        if !is_root && !n.is_history() {
            // onentry / onexit
            if dm != Dm::Null {
                let ne = 1 + g.rng.below(2);
                for k in 0..ne {
                    let mut b = vec![Stmt::Mark(format!("en:{}:{}", n.id, k), vec![])];
                    gen_block_tail(&mut b, g, in_names, 2);
                    n.onentry.push(b);
                }
                let nx = g.rng.below(2) + if g.rng.chance(1, 2) { 1 } else { 0 };
                for k in 0..nx {
                    let mut b = vec![Stmt::Mark(format!("ex:{}:{}", n.id, k), vec![])];
                    gen_block_tail(&mut b, g, in_names, 1);
                    n.onexit.push(b);
                }
            }
            // transitions
            if n.kind != Kind::Final {
                let nt = g.rng.below(4);
                for k in 0..nt {
                    let uid = format!("{}.{}", n.id, k);
                    let eventless = g.w(g.o.w_eventless);
                    let events: Vec<String> = if eventless {
                        vec![]
                    } else {
                        let mut ev = vec![g.o.events[g.rng.below(g.o.events.len())].clone()];
                        if g.o.w_raise > 0 && g.rng.chance(g.o.w_raise, 10) {
                            ev = vec![format!("r{}", 1 + g.rng.below(3))];
                        } else if g.o.w_self_send > 0 && g.rng.chance(g.o.w_self_send, 10) {
                            ev = vec![format!("x{}", 1 + g.rng.below(2))];
                        } else if g.rng.chance(1, 14) {
                            ev = vec![format!("done.state.{}", all_ids[g.rng.below(all_ids.len())])];
                        } else if g.o.w_errors > 0 && g.rng.chance(1, 8) {
                            ev = vec!["error.execution".to_string()];
                        }
                        if g.rng.chance(1, 6) {
                            ev.push(g.o.events[g.rng.below(g.o.events.len())].clone());
                        }
                        if g.rng.chance(1, 12) {
                            ev = vec!["*".to_string()];
                        } else if g.rng.chance(1, 10) {
                            // equivalent descriptor spellings
                            let k = g.rng.below(ev.len());
                            let suffix = if g.rng.chance(1, 2) { ".*" } else { "." };
                            ev[k].push_str(suffix);
                        }
                        ev
                    };
                    let mut cond = if g.w(g.o.w_cond) || eventless {
                        gen_cond(g, in_names)
                    } else {
                        Cond::True
                    };
                    if eventless && cond == Cond::True {
                        cond = Cond::In(in_names[g.rng.below(in_names.len())].clone());
                    }
                    let targets: Vec<String> = if g.w(g.o.w_targetless) {
                        vec![]
                    } else if g.w(g.o.w_multi_target) {
                        match region_pairs(root, g.rng) {
                            Some(p) => p,
                            None => vec![all_ids[g.rng.below(all_ids.len())].clone()],
                        }
                    } else if !hist_ids.is_empty() && g.rng.chance(1, 4) {
                        vec![hist_ids[g.rng.below(hist_ids.len())].clone()]
                    } else {
                        vec![all_ids[g.rng.below(all_ids.len())].clone()]
                    };
                    let internal = g.w(g.o.w_internal);
                    let mut body = vec![];
                    if dm != Dm::Null {
                        body.push(Stmt::Mark(format!("t:{}", uid), vec![]));
                        gen_block_tail(&mut body, g, in_names, 2);
                    }
                    n.trans.push(Trans {
                        events,
                        cond,
                        targets,
                        internal,
                        body,
                        uid,
                    });
                }
            }
        }
        for c in &mut n.children {
            decorate(c, g, root, all_ids, hist_ids, in_names, false);
        }
    }
    decorate(&mut root, &mut g, &root_clone, &all_ids, &hist_ids, &state_names_for_in, true);

    let script = if o.dm != Dm::Null && g.rng.chance(1, 3) {
        vec![Stmt::Mark("global-script".to_string(), vec![])]
    } else {
        vec![]
    };
    Doc {
        name: name.to_string(),
        dm: o.dm,
        late: false,
        root,
        vars,
        arrays,
        script,
    }
}

fn gen_cond(g: &mut Gen, in_names: &[String]) -> Cond {
    let dm = g.o.dm;
    let base_in = |g: &mut Gen| Cond::In(in_names[g.rng.below(in_names.len())].clone());
    if dm == Dm::Null {
        return base_in(g);
    }
    match g.rng.below(7) {
        0 => base_in(g),
        1 => Cond::Not(Box::new(base_in(g))),
        2 => Cond::Cmp(format!("v{}", g.rng.below(3)), *g.rng.pick(&[CmpOp::Eq, CmpOp::Ne, CmpOp::Lt, CmpOp::Ge]), g.rng.range(0, 3)),
        3 => Cond::And(
            Box::new(base_in(g)),
            Box::new(Cond::Cmp(format!("v{}", g.rng.below(3)), CmpOp::Lt, g.rng.range(1, 4))),
        ),
        4 => Cond::And(Box::new(Cond::Not(Box::new(base_in(g)))), Box::new(base_in(g))),
        5 if g.o.w_errors > 0 && g.rng.chance(g.o.w_errors, 8) => Cond::Bad,
        _ => Cond::Cmp(format!("v{}", g.rng.below(3)), CmpOp::Lt, g.rng.range(1, 5)),
    }
}

fn gen_stmt(g: &mut Gen, in_names: &[String], depth: usize) -> Option<Stmt> {
    let o = g.o;
    g.mark_seq += 1;
    let m = g.mark_seq;
    let r = g.rng.below(16);
    Some(match r {
        0 | 1 if o.w_raise > 0 => Stmt::Raise(format!("r{}.u{}", 1 + g.rng.below(3), m)),
        2 => Stmt::Assign(format!("v{}", g.rng.below(3)), Expr::Add(format!("v{}", g.rng.below(3)), g.rng.range(0, 2))),
        3 => Stmt::Assign(format!("v{}", g.rng.below(3)), Expr::Const(g.rng.range(0, 4))),
        4 | 5 if o.w_if > 0 && depth > 0 => {
            let nb = 1 + g.rng.below(3);
            let mut branches = Vec::new();
            for k in 0..nb {
                let mut b = vec![Stmt::Mark(format!("if{}:{}", m, k), vec![])];
                gen_block_tail(&mut b, g, in_names, depth - 1);
                branches.push((gen_cond(g, in_names), b));
            }
            let els = if g.rng.chance(1, 2) {
                let mut b = vec![Stmt::Mark(format!("if{}:else", m), vec![])];
                gen_block_tail(&mut b, g, in_names, depth - 1);
                Some(b)
            } else {
                None
            };
            Stmt::If(branches, els)
        }
        6 if o.w_foreach > 0 && depth > 0 => {
            let array = match g.rng.below(8) {
                0 if o.w_errors > 0 => ArrSrc::NotArray("v0".to_string()),
                1 if o.w_errors > 0 => ArrSrc::Bad,
                2 => ArrSrc::Var("arr1".to_string()),
                3 | 4 => ArrSrc::Lit(vec![g.rng.range(0, 9), g.rng.range(0, 9)]),
                _ => ArrSrc::Var("arr0".to_string()),
            };
            let item = format!("it{}", m);
            let index = if g.rng.chance(2, 3) { Some(format!("ix{}", m)) } else { None };
            let mut body = vec![Stmt::Mark(
                format!("fe{}", m),
                match &index {
                    Some(ix) => vec![Expr::Var(item.clone()), Expr::Var(ix.clone())],
                    None => vec![Expr::Var(item.clone())],
                },
            )];
            g.foreach_depth += 1;
            gen_block_tail(&mut body, g, in_names, depth - 1);
            g.foreach_depth -= 1;
            Stmt::Foreach { array, item, index, body }
        }
        7 if o.w_self_send > 0 => {
            let name = format!("x{}.u{}", 1 + g.rng.below(2), m);
            if g.rng.chance(1, 3) {
                Stmt::SendSelfById(name)
            } else {
                Stmt::SendSelf(name)
            }
        }
        8 if o.w_raise > 0 => Stmt::SendInternal(format!("r{}.u{}", 1 + g.rng.below(3), m)),
        9 => match g.rng.below(4) {
            // structured and string values are legal results of <log> / <script> as well
            0 => Stmt::Log(Expr::Raw(format!("[v{}, 2]", g.rng.below(3)), 0)),
            1 => Stmt::Script(Expr::Raw(format!("[v{}, [1, 'x']]", g.rng.below(3)), 0)),
            _ => Stmt::Log(Expr::Add(format!("v{}", g.rng.below(3)), 1)),
        },
        10 | 11 if o.w_errors > 0 && g.rng.chance(o.w_errors, 8) => match g.rng.below(8) {
            0 => match g.rng.below(3) {
                0 => Stmt::AssignBadLocation,
                _ => Stmt::AssignUndeclared,
            },
            1 => Stmt::Assign("v0".to_string(), if g.rng.chance(1, 2) { Expr::Bad } else { Expr::BadSyntax(g.rng.below(5) as u8) }),
            2 => Stmt::Log(if g.rng.chance(1, 2) { Expr::Bad } else { Expr::BadSyntax(g.rng.below(5) as u8) }),
            3 => Stmt::Script(if g.rng.chance(1, 2) { Expr::Bad } else { Expr::BadSyntax(g.rng.below(5) as u8) }),
            4 => Stmt::SendBad(BadSend::EventExpr),
            5 => Stmt::SendBad(BadSend::TargetExpr),
            6 => Stmt::SendBad(BadSend::Namelist),
            _ => Stmt::SendBad(BadSend::DelayExpr),
        },
        12 if o.w_foreach > 0 && o.dm != Dm::Null && g.foreach_depth == 0 => {
            let k = g.rng.below(3);
            if g.rng.chance(1, 2) {
                Stmt::AssignElem("arr0".to_string(), k, Expr::Add(format!("v{}", g.rng.below(3)), g.rng.range(40, 49)))
            } else {
                Stmt::AssignElem("arr0".to_string(), k, Expr::Const(g.rng.range(50, 59)))
            }
        }
        _ => return None,
    })
}

/// appends random statements, each failing-capable statement is followed by a mark
fn gen_block_tail(b: &mut Block, g: &mut Gen, in_names: &[String], depth: usize) {
    let n = g.rng.below(3);
    for _ in 0..n {
        if let Some(s) = gen_stmt(g, in_names, depth) {
            // announce queue operations so that exactly-once / FIFO can be checked without a model
            match &s {
                Stmt::Raise(e) | Stmt::SendInternal(e) => b.push(Stmt::Mark(format!("q:{}", e), vec![])),
                Stmt::SendSelf(e) | Stmt::SendSelfById(e) => b.push(Stmt::Mark(format!("xq:{}", e), vec![])),
                _ => {}
            }
            b.push(s);
            g.mark_seq += 1;
            b.push(Stmt::Mark(format!("a{}", g.mark_seq), vec![]));
        }
    }
}
