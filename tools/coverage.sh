#!/bin/bash
# Workload-reach measurement (not a check): which lines of /repo/src do the quick checks execute?
#   tools/coverage.sh [Cxx …]        (default: all properties except C20)
# Builds the harness with -Cinstrument-coverage (nightly, own target dir), runs the quick tiers, merges the
# profiles and prints per file the uncovered line ranges to /verif/.runs/coverage/uncovered.txt
set -u
ROOT=$(cd "$(dirname "$0")/.."; pwd)
cd $ROOT
PROPS="${@:-C01 C02 C03 C04 C05 C06 C07 C08 C09 C10 C11 C12 C13 C14 C15 C16 C17 C18 C19}"
OUT=$ROOT/.runs/coverage
TGT=${COV_TARGET:-$ROOT/.target/cov}
BIN=$HOME/.rustup/toolchains/nightly-x86_64-unknown-linux-gnu/lib/rustlib/x86_64-unknown-linux-gnu/bin
rm -rf $OUT; mkdir -p $OUT/prof
export RUSTUP_TOOLCHAIN=nightly
export RUSTFLAGS="-Cinstrument-coverage"
export VERIF_TARGET=$TGT
export LLVM_PROFILE_FILE="$OUT/prof/rv-%p-%8m.profraw"
export VERIF_SCALE=${VERIF_SCALE:-40}
./check build || exit 2
for p in $PROPS; do
  ./check $p --tier quick 2>&1 | tail -1
done
git checkout -q evidence 2>/dev/null
$BIN/llvm-profdata merge -sparse $OUT/prof/*.profraw -o $OUT/rv.profdata || exit 2
$BIN/llvm-cov export -format=lcov -instr-profile=$OUT/rv.profdata $TGT/debug/rv --ignore-filename-regex='(registry|rustc|harness)' > $OUT/lcov.info 2>/dev/null
python3 - "$OUT" <<'PY'
import sys,re,collections
out=sys.argv[1]
cur=None; unc=collections.defaultdict(list); tot=collections.Counter(); hit=collections.Counter()
for l in open(out+'/lcov.info'):
    l=l.strip()
    if l.startswith('SF:'): cur=l[3:]
    elif l.startswith('DA:'):
        n,c=l[3:].split(',')[:2]; n=int(n); c=int(c)
        tot[cur]+=1
        if c>0: hit[cur]+=1
        else: unc[cur].append(n)
with open(out+'/uncovered.txt','w') as f:
    for sf in sorted(tot):
        if '/repo/src' not in sf: continue
        f.write("%s: %d/%d lines (%.0f%%)\n"%(sf,hit[sf],tot[sf],100.0*hit[sf]/max(1,tot[sf])))
        # ranges
        r=[];
        for n in unc[sf]:
            if r and n==r[-1][1]+1: r[-1][1]=n
            else: r.append([n,n])
        f.write("   uncovered: "+" ".join("%d-%d"%(a,b) if a!=b else str(a) for a,b in r)+"\n")
print(open(out+'/uncovered.txt').read()[:200])
PY
rm -rf $OUT/prof
echo "see $OUT/uncovered.txt"
