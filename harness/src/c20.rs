//! C20 – the BasicHTTP processor turns each valid POST into exactly one event.
#![cfg(feature = "full")]
use crate::expr_ref::V;
use crate::rec::{self, Ev, Wait};
use crate::report::{Args, Report};
use crate::rng::Rng;
use crate::session::{parse_xml, Running};
use rufsm::fsm::FinishMode;
use rufsm::fsm_executor::FsmExecutor;
use serde_json::json;
use std::collections::{BTreeMap, HashMap};
use std::io::{Read, Write};
use std::net::TcpStream;
use std::time::{Duration, Instant};

const EVP: &str = "mark('ev', _event.name, _event.data, _sessionid)";

fn receiver_doc(dm: &str) -> String {
    let loc = if dm == "ecmascript" {
        "_ioprocessors['basichttp'].location"
    } else {
        "_ioprocessors['basichttp'].location"
    };
    format!(
        r##"<scxml xmlns="http://www.w3.org/2005/07/scxml" version="1.0" datamodel="{dm}" initial="r">
 <state id="r"><onentry><script>mark('loc', {loc}, _sessionid)</script></onentry>
  <transition event="error"><script>mark('err', _event.name)</script></transition>
  <transition event="*"><script>{p}</script></transition></state></scxml>"##,
        dm = dm,
        loc = loc,
        p = EVP
    )
}

fn sender_doc(dm: &str, target_location: &str) -> String {
    format!(
        r##"<scxml xmlns="http://www.w3.org/2005/07/scxml" version="1.0" datamodel="{dm}" initial="s">
 <datamodel><data id="i" expr="5"/><data id="d" expr="2.5"/><data id="t" expr="'a b&amp;c=d/é'"/><data id="b" expr="true"/></datamodel>
 <state id="s">
  <transition event="go1"><send event="loop.params" type="http://www.w3.org/TR/scxml/#BasicHTTPEventProcessor" target="{loc}"><param name="i" expr="i"/><param name="d" expr="d"/><param name="t" expr="t"/><param name="b" expr="b"/></send></transition>
  <transition event="go2"><send event="loop.short type" type="basichttp" target="{loc}" namelist="i t"/></transition>
  <transition event="go3"><send event="loop.self" type="basichttp" targetexpr="_ioprocessors['basichttp'].location"><param name="me" expr="1"/></send></transition>
  <transition event="error"><script>mark('err', _event.name)</script></transition>
  <transition event="*"><script>{p}</script></transition>
 </state></scxml>"##,
        dm = dm,
        loc = target_location,
        p = EVP
    )
}

fn pct(s: &str, rng: &mut Rng) -> (String, bool) {
    let mut out = String::new();
    let mut encoded = false;
    for b in s.bytes() {
        let c = b as char;
        if c.is_ascii_alphanumeric() || "-._~*".contains(c) {
            out.push(c);
        } else if c == ' ' && rng.chance(1, 2) {
            out.push('+');
            encoded = true;
        } else {
            encoded = true;
            if rng.chance(1, 2) {
                out.push_str(&format!("%{:02X}", b));
            } else {
                out.push_str(&format!("%{:02x}", b));
            }
        }
    }
    (out, encoded)
}

/// raw HTTP/1.1 POST; returns the status code
fn post(path: &str, body: &str) -> Result<u16, String> {
    let mut s = TcpStream::connect("127.0.0.1:5555").map_err(|e| e.to_string())?;
    let _ = s.set_read_timeout(Some(Duration::from_secs(10)));
    let req = format!(
        "POST {} HTTP/1.1\r\nHost: localhost:5555\r\nContent-Type: application/x-www-form-urlencoded\r\nContent-Length: {}\r\nConnection: close\r\n\r\n{}",
        path,
        body.len(),
        body
    );
    s.write_all(req.as_bytes()).map_err(|e| e.to_string())?;
    let mut resp = Vec::new();
    let _ = s.read_to_end(&mut resp);
    let text = String::from_utf8_lossy(&resp);
    let code = text.split_whitespace().nth(1).and_then(|c| c.parse::<u16>().ok());
    code.ok_or_else(|| format!("no status line in {:?}", text.chars().take(60).collect::<String>()))
}

fn start(ex: &FsmExecutor, actions: &rufsm::actions::ActionWrapper, xml: &str) -> Running {
    let mut fsm = parse_xml(xml).unwrap();
    let info = crate::session::model_info(&fsm);
    let tracer = rec::RecTracer::new(false);
    let tid = tracer.id;
    fsm.tracer = Box::new(tracer);
    let session = rufsm::fsm::start_fsm_with_data_and_finish_mode(fsm, actions.get_copy(), Box::new(ex.clone()), &[], FinishMode::KEEP_CONFIGURATION);
    Running { session, tracer: tid, info, idles_seen: 0 }
}

fn stable(r: &Running, n: u64) -> bool {
    rec::wait_idle_stable(r.tracer, n, Duration::from_millis(30), Duration::from_secs(15)) == Wait::Idle
}

fn as_map(v: &V) -> Option<BTreeMap<String, String>> {
    match v {
        V::Map(m) => Some(m.iter().map(|(k, x)| (k.clone(), match x { V::Str(s) => s.clone(), o => o.show() })).collect()),
        _ => None,
    }
}

pub fn run(args: &Args, rep: &mut Report) {
    // the port is fixed (5555): one C20 run at a time on this machine
    let lock = std::fs::OpenOptions::new().create(true).write(true).open("/tmp/rv-port5555.lock");
    let lock = match lock {
        Ok(l) => l,
        Err(e) => {
            rep.inconclusive(&format!("lock file: {}", e));
            return;
        }
    };
    let t0 = Instant::now();
    loop {
        let rc = unsafe { libc_flock(&lock) };
        if rc {
            break;
        }
        if t0.elapsed() > Duration::from_secs(600) {
            rep.inconclusive("port 5555 is in use by another check for more than 10 minutes");
            return;
        }
        std::thread::sleep(Duration::from_millis(200));
    }
    let epoch = rec::begin_case();
    let actions = rec::make_actions(epoch);
    let rt = match tokio::runtime::Builder::new_multi_thread().worker_threads(4).enable_all().build() {
        Ok(r) => r,
        Err(e) => {
            rep.inconclusive(&format!("tokio runtime: {}", e));
            return;
        }
    };
    let started = std::panic::catch_unwind(std::panic::AssertUnwindSafe(|| rt.block_on(FsmExecutor::new_with_io_processor())));
    let mut ex = match started {
        Ok(e) => e,
        Err(_) => {
            rep.inconclusive("the HTTP server could not be started (port 5555 busy?)");
            return;
        }
    };
    ex.state.lock().unwrap().datamodel_options.insert("ecma:strict".to_string(), "".to_string());
    // wait for the listener
    let t0 = Instant::now();
    while TcpStream::connect("127.0.0.1:5555").is_err() {
        if t0.elapsed() > Duration::from_secs(20) {
            rep.inconclusive("HTTP server does not accept connections");
            return;
        }
        std::thread::sleep(Duration::from_millis(50));
    }
    let mut rng = args.rng(20);
    let dms = ["rfsm-expression", "ecmascript", "rfsm-expression", "ecmascript"];
    let receivers: Vec<Running> = dms.iter().map(|dm| start(&ex, &actions, &receiver_doc(dm))).collect();
    for r in &receivers {
        stable(r, 0);
    }
    let ids: Vec<u32> = receivers.iter().map(|r| r.session.session_id).collect();
    let mut consumed: HashMap<u32, u64> = HashMap::new();

    // ---- single requests over an alphabet that needs encoding ----
    let alphabet = ["a", "b c", "x&y", "k=v", "1+1", "100%", "#frag", "q?", "s/t", "\"dq\"", "'sq'", "é", "日本", "", "semi;colon", "tab\there", "A.b.C"];
    let n = args.scale(250, 4000);
    let mut expected: Vec<(u32, String, String, Option<BTreeMap<String, String>>, Option<String>)> = Vec::new();
    for i in 0..n {
        let sid = ids[i % ids.len()];
        let uid = format!("u{}", i);
        let mut name = format!("ev.{}", uid);
        if rng.chance(1, 3) {
            name = format!("{} {}", rng.pick(&alphabet[..13]).replace('.', "-"), name);
        }
        let nf = rng.below(4);
        let mut fields: BTreeMap<String, String> = BTreeMap::new();
        for k in 0..nf {
            let fname = format!("f{}{}", k, rng.pick(&["", " sp", "&", "=", "é", "+"]));
            let mut val = rng.pick(&alphabet).to_string();
            if rng.chance(1, 40) {
                val = "v".repeat(4096);
            }
            fields.insert(fname, val);
        }
        let content = if nf == 0 && rng.chance(1, 2) { Some(rng.pick(&alphabet).to_string()) } else { None };
        let mut parts: Vec<String> = Vec::new();
        let mut any_encoded = false;
        let (en, e1) = pct(&name, &mut rng);
        any_encoded |= e1;
        parts.push(format!("_scxmleventname={}", en));
        for (k, v) in &fields {
            let (ek, a) = pct(k, &mut rng);
            let (ev, b) = pct(v, &mut rng);
            any_encoded |= a || b;
            parts.push(format!("{}={}", ek, ev));
        }
        if let Some(c) = &content {
            let (ec, a) = pct(c, &mut rng);
            any_encoded |= a;
            parts.push(format!("_content={}", ec));
        }
        rng.shuffle(&mut parts);
        let body = parts.join("&");
        rep.evaluations += 1;
        match post(&format!("/scxml/{}", sid), &body) {
            Ok(code) => {
                if !(200..300).contains(&code) {
                    rep.violation(
                        "valid-post-rejected",
                        &format!("a valid POST (event {:?}) was answered with status {}", name, code),
                        json!({"session": sid, "body": body, "status": code}),
                    );
                    continue;
                }
                rep.count("valid_posts_accepted", 1);
                if any_encoded {
                    rep.nontrivial_key(&body);
                    rep.count("posts_with_percent_encoding", 1);
                }
                *consumed.entry(sid).or_insert(0) += 1;
                expected.push((sid, uid, name, if fields.is_empty() { None } else { Some(fields) }, content));
            }
            Err(e) => rep.inconclusive(&format!("http client: {}", e)),
        }
    }
    // ---- invalid requests ----
    let invalid: Vec<(String, String, &str)> = vec![
        ("/scxml/999999".into(), "_scxmleventname=inv.unknown".into(), "unknown-session"),
        ("/scxml/0".into(), "_scxmleventname=inv.zero".into(), "unknown-session"),
        ("/scxml/abc".into(), "_scxmleventname=inv.alpha".into(), "non-numeric-session"),
        ("/scxml/-1".into(), "_scxmleventname=inv.negative".into(), "non-numeric-session"),
        ("/scxml/99999999999999".into(), "_scxmleventname=inv.overflow".into(), "overflowing-session"),
        (format!("/scxml/{}", ids[0]), "other=1&x=2".into(), "missing-event-name"),
        (format!("/scxml/{}", ids[0]), "".into(), "missing-event-name"),
        (format!("/scxml/{}", ids[1]), "_content=only".into(), "missing-event-name"),
        (format!("/scxml/{}", ids[1]), "_SCXMLEVENTNAME=wrongcase".into(), "missing-event-name"),
    ];
    for (path, body, class) in &invalid {
        rep.evaluations += 1;
        match post(path, body) {
            Ok(code) => {
                rep.count(&format!("invalid_{}", class), 1);
                if (200..300).contains(&code) {
                    rep.violation(
                        &format!("invalid-post-accepted:{}", class),
                        &format!("POST {} with body {:?} ({}) was answered with status {}", path, body, class, code),
                        json!({"path": path, "body": body, "status": code}),
                    );
                }
            }
            Err(e) => rep.inconclusive(&format!("http client: {}", e)),
        }
    }
    // ---- concurrent posts: exactly once ----
    let threads = 8;
    let per = args.scale(60, 400);
    let mut hs = Vec::new();
    // meanwhile a host thread starts and ends short-lived sessions in the same executor: the session table the
    // request handler looks into is in use by others
    let churn_stop = std::sync::Arc::new(std::sync::atomic::AtomicBool::new(false));
    let churn = {
        let ex2 = ex.clone();
        let actions2 = actions.get_copy();
        let stop = churn_stop.clone();
        std::thread::spawn(move || {
            let mut n = 0u64;
            while !stop.load(std::sync::atomic::Ordering::Relaxed) && n < 5000 {
                if let Ok(f) = parse_xml(r##"<scxml xmlns="http://www.w3.org/2005/07/scxml" version="1.0" datamodel="null" initial="f"><final id="f"/></scxml>"##) {
                    let _s = rufsm::fsm::start_fsm(f, actions2.get_copy(), Box::new(ex2.clone()));
                    n += 1;
                }
            }
            n
        })
    };
    for t in 0..threads {
        let ids2 = ids.clone();
        hs.push(std::thread::spawn(move || {
            let mut ok = Vec::new();
            let mut rejected = Vec::new();
            let mut transport = 0u64;
            for i in 0..per {
                let sid = ids2[(t + i) % ids2.len()];
                let name = format!("cc.t{}.{}", t, i);
                match post(&format!("/scxml/{}", sid), &format!("_scxmleventname={}&n={}", name, i)) {
                    Ok(code) if (200..300).contains(&code) => ok.push((sid, name)),
                    Ok(code) => rejected.push((sid, name, code)),
                    Err(_) => transport += 1,
                }
            }
            (ok, rejected, transport)
        }));
    }
    let mut concurrent: Vec<(u32, String)> = Vec::new();
    let mut rejected: Vec<(u32, String, u16)> = Vec::new();
    let mut transport_errors = 0u64;
    for h in hs {
        if let Ok((v, r, t)) = h.join() {
            concurrent.extend(v);
            rejected.extend(r.into_iter().map(|(a, b, c)| (a, b, c as u16)));
            transport_errors += t;
        }
    }
    churn_stop.store(true, std::sync::atomic::Ordering::Relaxed);
    let churned = churn.join().unwrap_or(0);
    rep.count("sessions_started_and_ended_during_concurrent_posts", churned);
    rep.count("concurrent_posts_transport_errors", transport_errors);
    if transport_errors > 0 {
        rep.inconclusive(&format!("{} concurrent posts failed below HTTP (connection refused / reset)", transport_errors));
    }
    if let Some((sid, name, code)) = rejected.first() {
        // a valid POST (running session, event name present) is answered with an error status although nothing is
        // wrong with it: it produced no event
        rep.violation(
            "valid-post-rejected-under-concurrency",
            &format!("{} of {} valid concurrent POSTs were answered with an error status (e.g. event {} to session {}: {}) while other requests and session starts were in progress", rejected.len(), rejected.len() + concurrent.len(), name, sid, code),
            json!({"rejected": rejected.len(), "accepted": concurrent.len(), "example": {"session": sid, "event": name, "status": code}, "client_threads": threads}),
        );
    }
    for (sid, _) in &concurrent {
        *consumed.entry(*sid).or_insert(0) += 1;
    }
    rep.count("concurrent_posts_accepted", concurrent.len() as u64);
    rep.evaluations += concurrent.len() as u64;
    for r in &receivers {
        let n = consumed.get(&r.session.session_id).cloned().unwrap_or(0);
        if !stable(r, n) {
            rep.inconclusive("a receiver did not consume the expected number of events in time");
        }
    }
    // ---- loop-back leg: <send type=basichttp> to the published location ----
    let log = rec::snapshot_log();
    let loc_of = |sid: u32| -> Option<String> {
        log.iter().find_map(|e| match &e.ev {
            Ev::Mark { tag, args, session, .. } if tag == "loc" && *session == sid => match args.first() {
                Some(V::Str(s)) => Some(s.clone()),
                _ => None,
            },
            _ => None,
        })
    };
    let mut senders = Vec::new();
    for (k, dm) in ["rfsm-expression", "ecmascript"].iter().enumerate() {
        let target = ids[k];
        match loc_of(target) {
            Some(loc) => {
                let s = start(&ex, &actions, &sender_doc(dm, &loc));
                stable(&s, 0);
                for (j, e) in ["go1", "go2", "go3"].iter().enumerate() {
                    let _ = s.session.sender.send(Box::new(rufsm::fsm::Event::new_simple(e)));
                    stable(&s, j as u64 + 1);
                }
                senders.push((s, target, dm.to_string()));
            }
            None => rep.violation("location-not-published", &format!("session {} does not publish a basichttp location in _ioprocessors", target), json!({})),
        }
    }
    std::thread::sleep(Duration::from_millis(500));
    for (s, _, _) in &senders {
        stable(s, 4);
    }
    // ---- collect ----
    let log = rec::take_log();
    let mut got: HashMap<(u32, String), Vec<V>> = HashMap::new();
    for e in &log {
        if let Ev::Mark { tag, args, session, .. } = &e.ev {
            if tag == "ev" {
                if let Some(V::Str(n)) = args.first() {
                    got.entry((*session, n.clone())).or_default().push(args.get(1).cloned().unwrap_or(V::NoneV));
                }
            }
        }
    }
    for (sid, uid, name, fields, content) in &expected {
        let g = got.get(&(*sid, name.clone())).cloned().unwrap_or_default();
        let w = json!({"session": sid, "uid": uid, "name": name, "fields": fields, "content": content});
        if g.len() != 1 {
            rep.violation(
                if g.is_empty() { "post-produced-no-event" } else { "post-produced-several-events" },
                &format!("POST for event {:?} was answered 2xx and produced {} events in session {}", name, g.len(), sid),
                w,
            );
            continue;
        }
        match (fields, content) {
            (Some(f), _) => {
                if as_map(&g[0]).as_ref() != Some(f) {
                    rep.violation("post-data-differs", &format!("_event.data of {:?} is {} instead of the posted fields {:?}", name, g[0].show().chars().take(200).collect::<String>(), f.keys().collect::<Vec<_>>()), w);
                }
            }
            (None, Some(c)) => {
                if !matches!(&g[0], V::Str(s) if s == c) {
                    rep.violation("post-content-differs", &format!("_event.data of {:?} is {} instead of the _content value {:?}", name, g[0].show(), c), w);
                }
            }
            (None, None) => {}
        }
    }
    let mut cc_count: HashMap<&String, usize> = HashMap::new();
    for ((_, n), v) in &got {
        if n.starts_with("cc.") {
            *cc_count.entry(n).or_insert(0) += v.len();
        }
    }
    for (sid, name) in &concurrent {
        let c = got.get(&(*sid, name.clone())).map(|v| v.len()).unwrap_or(0);
        if c != 1 {
            rep.violation(
                if c == 0 { "concurrent-post-lost" } else { "concurrent-post-duplicated" },
                &format!("concurrent POST {} to session {} produced {} events", name, sid, c),
                json!({"name": name, "session": sid}),
            );
        }
    }
    for (k, _) in got.iter().filter(|((_, n), _)| n.starts_with("inv.") || n == "wrongcase") {
        rep.violation("invalid-post-enqueued-event", &format!("event {:?} arrived although its request was invalid", k.1), json!({}));
    }
    // loop-back
    for (s, target, dm) in &senders {
        let sid = s.session.session_id;
        let p1 = got.get(&(*target, "loop.params".to_string())).cloned().unwrap_or_default();
        rep.evaluations += 3;
        let want: BTreeMap<String, String> = [("i", "5"), ("d", "2.5"), ("t", "a b&c=d/é"), ("b", "true")].iter().map(|(k, v)| (k.to_string(), v.to_string())).collect();
        let w = json!({"datamodel": dm, "sender": sid, "receiver": target});
        if p1.len() != 1 || as_map(&p1[0]).as_ref() != Some(&want) {
            rep.violation(
                "loopback-params-differ",
                &format!("[{}] <send type=BasicHTTP> with params (5, 2.5, 'a b&c=d/é', true) arrived {} times as {:?}", dm, p1.len(), p1.iter().map(|x| x.show()).collect::<Vec<_>>()),
                w.clone(),
            );
        } else {
            rep.count("loopback_sends_verified", 1);
            rep.nontrivial_key(&format!("loop:{}:params", dm));
        }
        let p2 = got.get(&(*target, "loop.short type".to_string())).cloned().unwrap_or_default();
        let want2: BTreeMap<String, String> = [("i", "5"), ("t", "a b&c=d/é")].iter().map(|(k, v)| (k.to_string(), v.to_string())).collect();
        if p2.len() != 1 || as_map(&p2[0]).as_ref() != Some(&want2) {
            rep.violation("loopback-namelist-differs", &format!("[{}] <send type=basichttp namelist=\"i t\"> arrived {} times as {:?}", dm, p2.len(), p2.iter().map(|x| x.show()).collect::<Vec<_>>()), w.clone());
        } else {
            rep.count("loopback_sends_verified", 1);
        }
        let p3 = got.get(&(sid, "loop.self".to_string())).cloned().unwrap_or_default();
        if p3.len() != 1 {
            rep.violation("loopback-self-lost", &format!("[{}] a send to the session's own published location arrived {} times", dm, p3.len()), w.clone());
        } else {
            rep.count("loopback_sends_verified", 1);
        }
    }
    rep.sample(json!({"example_body": expected.last().map(|e| format!("{:?}", (&e.2, &e.3, &e.4))), "sessions": ids}));
    ex.shutdown();
    drop(rt);
}

/// flock(LOCK_EX | LOCK_NB) without the libc crate
unsafe fn libc_flock(f: &std::fs::File) -> bool {
    use std::os::unix::io::AsRawFd;
    extern "C" {
        fn flock(fd: i32, op: i32) -> i32;
    }
    flock(f.as_raw_fd(), 2 | 4) == 0
}
