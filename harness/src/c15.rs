//! C15 – the SCXML event I/O processor routes each send to exactly the addressed queue.
use crate::expr_ref::V;
use crate::rec::{self, Entry, Ev, Wait};
use crate::report::{Args, Report};
use crate::session::{parse_xml, Case, Running};
use serde_json::json;
use std::collections::{BTreeMap, BTreeSet, HashMap};
use std::sync::{Arc, Barrier};
use std::time::Duration;

const SCXML_TYPE: &str = "http://www.w3.org/TR/scxml/#SCXMLEventProcessor";
const EVP: &str = "mark('ev', _event.name, _event.type, _event.sendid, _event.origin, _event.origintype, _event.invokeid, _event.data)";

fn receive_part() -> String {
    format!(
        r##"  <transition event="mi"><script>{p}</script></transition>
  <transition event="m"><script>{p}</script><send eventexpr="'reply.' + _event.name" targetexpr="_event.origin" typeexpr="_event.origintype"/></transition>
  <transition event="reply"><script>{p}</script></transition>
  <transition event="md"><script>{p}</script><send eventexpr="'reply.' + _event.name" targetexpr="_event.origin" typeexpr="_event.origintype"/></transition>
  <transition event="bar"><script>{p}</script></transition>
  <transition event="relay"><script>{p}</script><script>mark('deep', _event.data.o.k[1].z, _event.data.o.s)</script><send event="m.relayed" targetexpr="_event.origin" typeexpr="_event.origintype"><param name="o" expr="_event.data.o"/></send></transition>
  <transition event="done.invoke"><script>{p}</script></transition>
  <transition event="error"><script>mark('err', _event.name)</script></transition>"##,
        p = EVP
    )
}

/// grand-child G: invoked by the child C (which is itself an invoked session)
fn grandchild_doc(dm: &str) -> String {
    format!(
        r##"<scxml xmlns="http://www.w3.org/2005/07/scxml" version="1.0" name="G" datamodel="{dm}" initial="g">
 <datamodel><data id="B" expr="0"/></datamodel>
 <state id="g">
  <onentry><script>mark('hello-g')</script><send event="m.g1" target="#_parent"><param name="from" expr="'grandchild'"/></send>
   <send event="m.g2" targetexpr="'#_scxml_' + B"><param name="from" expr="'grandchild'"/></send></onentry>
  <transition event="chain"><script>{p}</script><send event="chain" targetexpr="'#_scxml_' + B"><param name="a" expr="_event.data.a"/></send></transition>
{recv}
 </state>
</scxml>"##,
        dm = dm,
        p = EVP,
        recv = receive_part()
    )
}

fn child_doc(dm: &str) -> String {
    format!(
        r##"<scxml xmlns="http://www.w3.org/2005/07/scxml" version="1.0" name="C" datamodel="{dm}" initial="c">
 <datamodel><data id="cv" expr="9"/><data id="B" expr="0"/></datamodel>
 <state id="c">
  <onentry><script>mark('hello')</script><send event="m.c1" target="#_parent"><param name="from" expr="'child'"/><param name="cv" expr="cv"/></send>
   <send event="m.c2" targetexpr="'#_' + 'parent'" type="scxml"><content>child content</content></send>
   <send event="m.c3" targetexpr="'#_scxml_' + B"><param name="from" expr="'child'"/></send></onentry>
  <invoke id="gkid" namelist="B"><content>{grandchild}</content></invoke>
  <transition event="m.g1"><script>{p}</script><send event="reply.m.g1" targetexpr="_event.origin" typeexpr="_event.origintype"/><send event="m.c4" target="#_gkid"><param name="from" expr="'child'"/></send></transition>
  <transition event="chain"><script>{p}</script><send event="chain" target="#_gkid"><param name="a" expr="_event.data.a"/></send></transition>
{recv}
 </state>
</scxml>"##,
        dm = dm,
        p = EVP,
        grandchild = grandchild_doc(dm),
        recv = receive_part()
    )
}

fn parent_doc(dm: &str, bid: u32) -> String {
    format!(
        r##"<scxml xmlns="http://www.w3.org/2005/07/scxml" version="1.0" name="A" datamodel="{dm}" initial="s">
 <datamodel><data id="v" expr="5"/><data id="w" expr="'str'"/><data id="B" expr="{bid}"/><data id="gen" expr="''"/><data id="gen2" expr="''"/></datamodel>
 <state id="s">
  <invoke id="kid" namelist="B"><content>{child}</content></invoke>
  <transition event="cmd.19"><send event="chain" target="#_kid"><param name="a" expr="_sessionid"/></send></transition>
  <transition event="chain.done"><script>{p}</script></transition>
  <transition event="cmd.1"><send event="m.a1"/></transition>
  <transition event="cmd.2"><send event="mi.a2" target="#_internal"><param name="p" expr="v"/></send></transition>
  <transition event="cmd.3"><send event="m.a3" target="#_scxml_{bid}" type="scxml"><param name="p" expr="v"/><param name="q" expr="w"/></send></transition>
  <transition event="cmd.4"><send event="m.a4" targetexpr="'#_scxml_' + B" type="{scxml}" namelist="v w"/></transition>
  <transition event="cmd.5"><send event="m.a5" target="#_kid"><content>literal content</content></send></transition>
  <transition event="cmd.6"><send event="m.a6" targetexpr="'#_' + 'kid'"><content expr="v + 1"/></send></transition>
  <transition event="cmd.7"><send event="m.a7" target="#_scxml_{bid}"><param name="d" expr="1"/><param name="d" expr="2"/></send></transition>
  <transition event="cmd.8"><send event="m.a8" idlocation="gen" target="#_scxml_{bid}"/><send event="m.a8b" idlocation="gen2" target="#_scxml_{bid}"/><script>mark('genid', gen, gen2)</script></transition>
  <transition event="cmd.9"><send event="m.a9" id="explicit-id" target="#_scxml_{bid}"/></transition>
  <transition event="cmd.10"><send event="mi.a10" targetexpr="'#_' + 'internal'"/></transition>
  <transition event="cmd.14"><send event="relay.a14" target="#_scxml_{bid}"><param name="o" expr="{nested}"/></send></transition>
  <transition event="cmd.15"><send event="relay.a15" target="#_kid"><param name="o" expr="{nested}"/></send></transition>
  <transition event="cmd.16"><send event="m.a16" target="#_scxml_{bid}" namelist="v"><param name="q" expr="w"/></send></transition>
  <transition event="cmd.17"><send event="mi.a17" target="#_internal" namelist="w v"><param name="z" expr="v + 1"/></send></transition>
  <transition event="cmd.18"><send event="m.a18" target="#_kid" namelist="w"><param name="p" expr="v"/><param name="q" expr="v + 2"/></send></transition>
  <transition event="cmd.20"><send event="md.a20" targetexpr="'#_scxml_' + B" delay="20ms"><param name="p" expr="v"/></send></transition>
  <transition event="cmd.21"><send event="md.a21" targetexpr="'#_' + 'kid'" delayexpr="'15ms'"><param name="p" expr="v + 1"/></send></transition>
  <transition event="cmd.22"><send event="md.a22" target="#_scxml_{bid}" delay="10ms"/><send event="bar.a" delay="150ms"/></transition>
  <transition event="cmd.23"><send event="m.a23" targetexpr="'#_scxml_' + _sessionid"><param name="p" expr="v"/></send></transition>
  <transition event="cmd.24"><send event="m.a24" target="#_scxml_{bid}"><param name="p" expr="v"/><param name="bad" expr="nosuch_variable"/><param name="q" expr="w"/></send></transition>
  <transition event="cmd.25"><send event="m.a25" target="#_kid"><param name="bad" location="nosuch_variable"/><param name="q" expr="w"/></send></transition>
  <transition event="cmd.11"><send event="m.fenceA"/></transition>
  <transition event="cmd.12"><send event="m.fenceB" target="#_scxml_{bid}"/></transition>
  <transition event="cmd.13"><send event="m.fenceC" target="#_kid"/></transition>
{recv}
 </state>
</scxml>"##,
        dm = dm,
        bid = bid,
        scxml = SCXML_TYPE,
        nested = if dm == "ecmascript" { "({k: [1, {z: 2}], s: 'x'})" } else { "{'k': [1, {'z': 2}], 's': 'x'}" },
        child = child_doc(dm),
        p = EVP,
        recv = receive_part()
    )
}

fn sibling_doc(dm: &str) -> String {
    format!(
        r##"<scxml xmlns="http://www.w3.org/2005/07/scxml" version="1.0" name="B" datamodel="{dm}" initial="b">
 <state id="b">
  <transition event="chain"><script>{p}</script><send event="chain.done" targetexpr="'#_scxml_' + _event.data.a"/></transition>
{recv}
 </state>
</scxml>"##,
        dm = dm,
        p = EVP,
        recv = receive_part()
    )
}

fn wait_stable(r: &mut Running, n: u64) -> bool {
    rec::wait_idle_stable(r.tracer, n, Duration::from_millis(25), Duration::from_secs(10)) == Wait::Idle
}

fn blank(v: &V) -> bool {
    matches!(v, V::Null | V::NoneV) || matches!(v, V::Str(s) if s.is_empty())
}

fn loose(a: &V, b: &V) -> bool {
    match (a, b) {
        (V::Int(x), V::Dbl(y)) | (V::Dbl(y), V::Int(x)) => (*x as f64) == *y,
        (V::Arr(x), V::Arr(y)) => x.len() == y.len() && x.iter().zip(y.iter()).all(|(v, w)| loose(v, w)),
        (V::Map(x), V::Map(y)) => x.len() == y.len() && x.iter().all(|(k, v)| y.get(k).map(|w| loose(v, w)).unwrap_or(false)),
        _ => a.same(b) || (blank(a) && blank(b)),
    }
}

struct Want {
    name: &'static str,
    session: char, // 'A' | 'B' | 'C' | 'G' (grand-child, invoked by C)
    /// the statement does not say whether an event that an invoked session sends to a third party carries the
    /// invoke id: not judged on those routes
    skip_invokeid: bool,
    internal: bool,
    origin_of: Option<char>,
    sendid: Option<&'static str>,
    data: Option<V>,
    invokeid: bool,
}

fn routing(dm: &str, rep: &mut Report) {
    let mut case = Case::new();
    let mut b = case.start(parse_xml(&sibling_doc(dm)).unwrap());
    wait_stable(&mut b, 0);
    let bid = b.session.session_id;
    let xml = parent_doc(dm, bid);
    let fsm = match parse_xml(&xml) {
        Ok(f) => f,
        Err(e) => {
            rep.inconclusive(&e);
            return;
        }
    };
    let mut a = case.start(fsm);
    wait_stable(&mut a, 2); // m.c1, m.c2 from the child
    let aid = a.session.session_id;
    let mut sent = 2;
    // delayed sends first (target computed by targetexpr / literal, delay / delayexpr); the session's own later-due
    // `bar.a` tells when its timer has passed them, the fences at the end flush the routes they travel
    for k in [20, 21, 22] {
        a.send(&format!("cmd.{}", k));
        sent += 1;
        wait_stable(&mut a, sent);
    }
    {
        let t0 = std::time::Instant::now();
        loop {
            if rec::snapshot_log().iter().any(|e| matches!(&e.ev, Ev::XRecv(ev) if ev.name == "bar.a")) {
                break;
            }
            if t0.elapsed() > Duration::from_secs(90) {
                rep.inconclusive(&format!("[{}] the session's own delayed barrier event did not arrive within the watchdog", dm));
                a.finish();
                b.finish();
                let _ = rec::take_log();
                return;
            }
            std::thread::sleep(Duration::from_millis(5));
        }
    }
    for k in [1, 2, 3, 4, 5, 6, 7, 8, 9, 10, 14, 15, 16, 17, 18, 23, 24, 25, 11, 12, 13, 19] {
        a.send(&format!("cmd.{}", k));
        sent += 1;
        wait_stable(&mut a, sent);
    }
    // Fences: cmd.11..13 send one more event along each route (A->A, A->B->A, A->kid->A).  The
    // queues are FIFO per producer, so once A has processed the three fence replies every earlier
    // event and reply on those routes has been delivered.  The watchdog only yields "inconclusive".
    // cmd.19 sends `chain` along A -> kid -> grand-child -> B -> A (`chain.done`): when it is back, every event
    // sent earlier on those hops has been delivered too.  If it does not come back, an event was lost on that route
    // (or the machine is very slow): then only what the *terminated* sessions prove is judged (see below).
    let t0 = std::time::Instant::now();
    let mut chain_back = false;
    loop {
        let l = rec::snapshot_log();
        // (received in whichever queue: a reply that lands in the wrong queue is judged below, it must not stall the fence)
        let got = |n: &str| l.iter().any(|e| matches!(&e.ev, Ev::XRecv(ev) | Ev::IRecv(ev) if ev.name == n));
        let basic = got("reply.m.fenceA") && got("reply.m.fenceB") && got("reply.m.fenceC");
        if basic && got("chain.done") {
            chain_back = true;
            break;
        }
        if t0.elapsed() > Duration::from_secs(90) {
            if basic {
                break;
            }
            rep.inconclusive(&format!("[{}] the fence replies did not all arrive within the watchdog", dm));
            a.finish();
            b.finish();
            let _ = rec::take_log();
            return;
        }
        std::thread::sleep(Duration::from_millis(10));
    }
    let log = rec::snapshot_log();
    // child session id and thread from its marks
    let child = log.iter().find_map(|e| match &e.ev {
        Ev::Mark { tag, session, parent_session, .. } if tag == "hello" && *parent_session == Some(aid) => Some((*session, e.tid)),
        _ => None,
    });
    let grandchild = log.iter().find_map(|e| match &e.ev {
        Ev::Mark { tag, session, .. } if tag == "hello-g" => Some((*session, e.tid)),
        _ => None,
    });
    // A ends (its cancel reaches the child and, through it, the grand-child: each processes its queue up to the
    // cancel event, in FIFO order), then B.  Afterwards the log is complete for everything sent before.
    a.finish();
    let btr = b.tracer;
    let others_ended = {
        let t1 = std::time::Instant::now();
        loop {
            let pending = rec::session_threads_of().iter().filter(|(tr, fin)| *tr != btr && !*fin).count();
            if pending == 0 {
                break true;
            }
            if t1.elapsed() > Duration::from_secs(90) {
                break false;
            }
            std::thread::sleep(Duration::from_millis(5));
        }
    };
    b.finish();
    let log = rec::take_log();
    let w = json!({"datamodel": dm, "parent_xml": xml});
    if !chain_back && !others_ended {
        rep.inconclusive(&format!("[{}] the chain fence did not return and the sessions did not end within the watchdog", dm));
        return;
    }
    let (cid, ctid) = match child {
        Some(c) => c,
        None => {
            rep.violation("child-not-started", &format!("[{}] the invoked child never ran", dm), w);
            return;
        }
    };
    let (gid, gtid) = match grandchild {
        Some(g) => g,
        None => {
            rep.violation("grandchild-not-started", &format!("[{}] the session invoked by the invoked child never ran", dm), w);
            return;
        }
    };
    let sid_of = |c: char| match c {
        'A' => aid,
        'B' => bid,
        'G' => gid,
        _ => cid,
    };
    let map = |pairs: &[(&str, V)]| -> V {
        let mut m = BTreeMap::new();
        for (k, v) in pairs {
            m.insert(k.to_string(), v.clone());
        }
        V::Map(m)
    };
    let nested = map(&[("k", V::Arr(vec![V::Int(1), map(&[("z", V::Int(2))])])), ("s", V::Str("x".into()))]);
    let wants = vec![
        Want { skip_invokeid: false, name: "m.c1", session: 'A', internal: false, origin_of: Some('C'), sendid: None, data: Some(map(&[("from", V::Str("child".into())), ("cv", V::Int(9))])), invokeid: true },
        Want { skip_invokeid: false, name: "m.c2", session: 'A', internal: false, origin_of: Some('C'), sendid: None, data: Some(V::Str("child content".into())), invokeid: true },
        Want { skip_invokeid: false, name: "m.a1", session: 'A', internal: false, origin_of: Some('A'), sendid: None, data: None, invokeid: false },
        Want { skip_invokeid: false, name: "mi.a2", session: 'A', internal: true, origin_of: None, sendid: None, data: Some(map(&[("p", V::Int(5))])), invokeid: false },
        Want { skip_invokeid: false, name: "m.a3", session: 'B', internal: false, origin_of: Some('A'), sendid: None, data: Some(map(&[("p", V::Int(5)), ("q", V::Str("str".into()))])), invokeid: false },
        Want { skip_invokeid: false, name: "m.a4", session: 'B', internal: false, origin_of: Some('A'), sendid: None, data: Some(map(&[("v", V::Int(5)), ("w", V::Str("str".into()))])), invokeid: false },
        Want { skip_invokeid: false, name: "m.a5", session: 'C', internal: false, origin_of: Some('A'), sendid: None, data: Some(V::Str("literal content".into())), invokeid: false },
        Want { skip_invokeid: false, name: "m.a6", session: 'C', internal: false, origin_of: Some('A'), sendid: None, data: Some(V::Int(6)), invokeid: false },
        Want { skip_invokeid: false, name: "m.a7", session: 'B', internal: false, origin_of: Some('A'), sendid: None, data: None, invokeid: false },
        Want { skip_invokeid: false, name: "m.a8", session: 'B', internal: false, origin_of: Some('A'), sendid: Some("<generated>"), data: None, invokeid: false },
        Want { skip_invokeid: false, name: "m.a9", session: 'B', internal: false, origin_of: Some('A'), sendid: Some("explicit-id"), data: None, invokeid: false },
        Want { skip_invokeid: false, name: "mi.a10", session: 'A', internal: true, origin_of: None, sendid: None, data: None, invokeid: false },
        // namelist and <param> together: both contribute
        Want { skip_invokeid: false, name: "m.a16", session: 'B', internal: false, origin_of: Some('A'), sendid: None, data: Some(map(&[("v", V::Int(5)), ("q", V::Str("str".into()))])), invokeid: false },
        Want { skip_invokeid: false, name: "mi.a17", session: 'A', internal: true, origin_of: None, sendid: None, data: Some(map(&[("w", V::Str("str".into())), ("v", V::Int(5)), ("z", V::Int(6))])), invokeid: false },
        Want { skip_invokeid: false, name: "m.a18", session: 'C', internal: false, origin_of: Some('A'), sendid: None, data: Some(map(&[("w", V::Str("str".into())), ("p", V::Int(5)), ("q", V::Int(7))])), invokeid: false },
        // a <param> whose evaluation fails is left out (error.execution); the event is sent with the others
        Want { skip_invokeid: false, name: "m.a24", session: 'B', internal: false, origin_of: Some('A'), sendid: None, data: Some(map(&[("p", V::Int(5)), ("q", V::Str("str".into()))])), invokeid: false },
        Want { skip_invokeid: false, name: "m.a25", session: 'C', internal: false, origin_of: Some('A'), sendid: None, data: Some(map(&[("q", V::Str("str".into()))])), invokeid: false },
        // nested payloads keep their structure, also when relayed by the receiver
        Want { skip_invokeid: false, name: "relay.a14", session: 'B', internal: false, origin_of: Some('A'), sendid: None, data: Some(map(&[("o", nested.clone())])), invokeid: false },
        Want { skip_invokeid: false, name: "relay.a15", session: 'C', internal: false, origin_of: Some('A'), sendid: None, data: Some(map(&[("o", nested.clone())])), invokeid: false },
        // reply legs: the reply to an event reaches the original sender
        Want { skip_invokeid: false, name: "reply.m.c1", session: 'C', internal: false, origin_of: Some('A'), sendid: None, data: None, invokeid: false },
        Want { skip_invokeid: false, name: "reply.m.a3", session: 'A', internal: false, origin_of: Some('B'), sendid: None, data: None, invokeid: false },
        Want { skip_invokeid: false, name: "reply.m.a4", session: 'A', internal: false, origin_of: Some('B'), sendid: None, data: None, invokeid: false },
        Want { skip_invokeid: false, name: "reply.m.a5", session: 'A', internal: false, origin_of: Some('C'), sendid: None, data: None, invokeid: true },
        Want { skip_invokeid: false, name: "reply.m.a1", session: 'A', internal: false, origin_of: Some('A'), sendid: None, data: None, invokeid: false },
        // a session addressing itself by its session id: its own *external* queue
        Want { skip_invokeid: false, name: "m.a23", session: 'A', internal: false, origin_of: Some('A'), sendid: None, data: Some(map(&[("p", V::Int(5))])), invokeid: false },
        Want { skip_invokeid: false, name: "reply.m.a23", session: 'A', internal: false, origin_of: Some('A'), sendid: None, data: None, invokeid: false },
        // delayed sends go to the same place as immediate ones (target by expression or literal)
        Want { skip_invokeid: false, name: "md.a20", session: 'B', internal: false, origin_of: Some('A'), sendid: None, data: Some(map(&[("p", V::Int(5))])), invokeid: false },
        Want { skip_invokeid: false, name: "md.a21", session: 'C', internal: false, origin_of: Some('A'), sendid: None, data: Some(map(&[("p", V::Int(6))])), invokeid: false },
        Want { skip_invokeid: false, name: "md.a22", session: 'B', internal: false, origin_of: Some('A'), sendid: None, data: None, invokeid: false },
        Want { skip_invokeid: false, name: "bar.a", session: 'A', internal: false, origin_of: Some('A'), sendid: None, data: None, invokeid: false },
        Want { skip_invokeid: false, name: "reply.md.a20", session: 'A', internal: false, origin_of: Some('B'), sendid: None, data: None, invokeid: false },
        Want { skip_invokeid: false, name: "reply.md.a21", session: 'A', internal: false, origin_of: Some('C'), sendid: None, data: None, invokeid: true },
        // an invoked session addresses a third session by id, and gets the reply
        Want { skip_invokeid: true, name: "m.c3", session: 'B', internal: false, origin_of: Some('C'), sendid: None, data: Some(map(&[("from", V::Str("child".into()))])), invokeid: false },
        Want { skip_invokeid: true, name: "reply.m.c3", session: 'C', internal: false, origin_of: Some('B'), sendid: None, data: None, invokeid: false },
        // three levels: the child (itself invoked) and the session it invokes
        Want { skip_invokeid: false, name: "m.g1", session: 'C', internal: false, origin_of: Some('G'), sendid: None, data: Some(map(&[("from", V::Str("grandchild".into()))])), invokeid: true },
        Want { skip_invokeid: true, name: "reply.m.g1", session: 'G', internal: false, origin_of: Some('C'), sendid: None, data: None, invokeid: false },
        Want { skip_invokeid: true, name: "m.c4", session: 'G', internal: false, origin_of: Some('C'), sendid: None, data: Some(map(&[("from", V::Str("child".into()))])), invokeid: false },
        Want { skip_invokeid: false, name: "reply.m.c4", session: 'C', internal: false, origin_of: Some('G'), sendid: None, data: None, invokeid: true },
        Want { skip_invokeid: true, name: "m.g2", session: 'B', internal: false, origin_of: Some('G'), sendid: None, data: Some(map(&[("from", V::Str("grandchild".into()))])), invokeid: false },
        Want { skip_invokeid: true, name: "reply.m.g2", session: 'G', internal: false, origin_of: Some('B'), sendid: None, data: None, invokeid: false },
        Want { skip_invokeid: true, name: "chain.done", session: 'A', internal: false, origin_of: Some('B'), sendid: None, data: None, invokeid: false },
    ];
    // receptions per (session via thread), from tracer entries
    let tid_of_tracer = |tr: u32| log.iter().find(|e| e.tracer == tr).map(|e| e.tid);
    let atid = tid_of_tracer(a.tracer);
    let btid = tid_of_tracer(b.tracer);
    let sess_of_tid = |t: u64| -> Option<char> {
        if Some(t) == atid {
            Some('A')
        } else if Some(t) == btid {
            Some('B')
        } else if t == ctid {
            Some('C')
        } else if t == gtid {
            Some('G')
        } else {
            None
        }
    };
    let mut receptions: HashMap<String, Vec<(char, bool, crate::rec::EvRec)>> = HashMap::new();
    for e in &log {
        let (internal, ev) = match &e.ev {
            Ev::IRecv(ev) => (true, ev),
            Ev::XRecv(ev) => (false, ev),
            _ => continue,
        };
        if let Some(s) = sess_of_tid(e.tid) {
            receptions.entry(ev.name.clone()).or_default().push((s, internal, ev.clone()));
        }
    }
    let probes: HashMap<(u32, String), Vec<V>> = log
        .iter()
        .filter_map(|e| match &e.ev {
            Ev::Mark { tag, args, session, .. } if tag == "ev" => match args.first() {
                Some(V::Str(n)) => Some(((*session, n.clone()), args.clone())),
                _ => None,
            },
            _ => None,
        })
        .collect();
    let genids: Vec<String> = log
        .iter()
        .filter_map(|e| match &e.ev {
            Ev::Mark { tag, args, .. } if tag == "genid" => Some(args.iter().filter_map(|a| if let V::Str(s) = a { Some(s.clone()) } else { None }).collect::<Vec<_>>()),
            _ => None,
        })
        .flatten()
        .collect();
    for wnt in &wants {
        rep.evaluations += 1;
        let rs = receptions.get(wnt.name).cloned().unwrap_or_default();
        let form = format!("{}:{}->{}", dm, wnt.name, wnt.session);
        if rs.len() != 1 {
            rep.violation(
                &format!("{}:{}", if rs.is_empty() { "event-not-delivered" } else { "event-delivered-more-than-once" }, wnt.name),
                &format!("[{}] {} was received {} times ({:?}), expected once by session {}", dm, wnt.name, rs.len(), rs.iter().map(|r| (r.0, r.1)).collect::<Vec<_>>(), wnt.session),
                w.clone(),
            );
            continue;
        }
        let (s, internal, ev) = &rs[0];
        if *s != wnt.session || *internal != wnt.internal {
            rep.violation(
                &format!("wrong-queue:{}", wnt.name),
                &format!(
                    "[{}] {} arrived in the {} queue of session {} instead of the {} queue of {}",
                    dm,
                    wnt.name,
                    if *internal { "internal" } else { "external" },
                    s,
                    if wnt.internal { "internal" } else { "external" },
                    wnt.session
                ),
                w.clone(),
            );
            continue;
        }
        rep.nontrivial_key(&form);
        rep.count(&format!("delivered_to_{}", wnt.session), 1);
        if !wnt.internal {
            if ev.origintype.as_deref() != Some(SCXML_TYPE) {
                rep.violation(&format!("origintype:{}", wnt.name), &format!("[{}] {} carries origintype {:?}", dm, wnt.name, ev.origintype), w.clone());
            }
            if let Some(o) = wnt.origin_of {
                let want = format!("#_scxml_{}", sid_of(o));
                if ev.origin.as_deref() != Some(want.as_str()) {
                    rep.violation(&format!("origin:{}", wnt.name), &format!("[{}] {} carries origin {:?}, the sender's location is {}", dm, wnt.name, ev.origin, want), w.clone());
                }
            }
        }
        match wnt.sendid {
            Some("<generated>") => {
                if ev.sendid.is_none() || !genids.contains(ev.sendid.as_ref().unwrap()) {
                    rep.violation(&format!("sendid:{}", wnt.name), &format!("[{}] {} carries sendid {:?}, the id stored at idlocation is one of {:?}", dm, wnt.name, ev.sendid, genids), w.clone());
                }
            }
            Some(id) => {
                if ev.sendid.as_deref() != Some(id) {
                    rep.violation(&format!("sendid:{}", wnt.name), &format!("[{}] {} carries sendid {:?} instead of {}", dm, wnt.name, ev.sendid, id), w.clone());
                }
            }
            None => {
                if ev.sendid.is_some() {
                    rep.violation(&format!("sendid:{}", wnt.name), &format!("[{}] {} carries sendid {:?} although none was given", dm, wnt.name, ev.sendid), w.clone());
                }
            }
        }
        if !wnt.skip_invokeid && wnt.invokeid != ev.invokeid.is_some() {
            rep.violation(&format!("invokeid:{}", wnt.name), &format!("[{}] {} carries invokeid {:?}", dm, wnt.name, ev.invokeid), w.clone());
        }
        if wnt.name == "m.a7" {
            // duplicate parameter names: both pairs, in order
            let ps: Vec<(String, String)> = ev.params.clone().unwrap_or_default().iter().map(|(k, v)| (k.clone(), v.show())).collect();
            let ok = ps.len() == 2 && ps[0].0 == "d" && ps[1].0 == "d" && ps[0].1 != ps[1].1;
            if !ok {
                rep.violation("duplicate-params", &format!("[{}] two <param name=\"d\"> arrive as {:?}", dm, ps), w.clone());
            }
        }
        if let Some(d) = &wnt.data {
            match probes.get(&(sid_of(wnt.session), wnt.name.to_string())) {
                Some(args) => {
                    let got = args.get(6).cloned().unwrap_or(V::NoneV);
                    if !loose(&got, d) {
                        rep.violation(&format!("payload:{}", wnt.name), &format!("[{}] _event.data of {} is {} instead of {}", dm, wnt.name, got.show(), d.show()), w.clone());
                    }
                }
                None => rep.violation(&format!("payload:{}", wnt.name), &format!("[{}] {} was received but not seen by the _event probe", dm, wnt.name), w.clone()),
            }
        }
    }
    // the chain event travels A -> C -> G -> B: one reception per hop
    {
        rep.evaluations += 1;
        let mut hops: Vec<char> = receptions.get("chain").map(|v| v.iter().map(|r| r.0).collect()).unwrap_or_default();
        hops.sort();
        if hops != vec!['B', 'C', 'G'] {
            let missing: Vec<String> = ['C', 'G', 'B'].iter().filter(|h| !hops.contains(h)).map(|h| h.to_string()).collect();
            rep.violation(
                &format!("event-not-delivered:chain:{}", if missing.is_empty() { "duplicate".to_string() } else { missing.join("") }),
                &format!("[{}] the event forwarded A -> child (#_kid) -> grand-child (#_gkid) -> B (#_scxml_id) was received by {:?}, expected once each by C, G and B (all sessions had ended: their queues were drained)", dm, hops),
                w.clone(),
            );
        } else {
            rep.count("chain_hops_delivered", 3);
            rep.nontrivial_key(&format!("{}:chain", dm));
        }
    }
    // relayed nested payloads: A receives m.relayed twice (from B and from the child), both intact;
    // in-script access to the nested value worked at the relay
    {
        let relayed: Vec<&Vec<V>> = log
            .iter()
            .filter_map(|e| match &e.ev {
                Ev::Mark { tag, args, session, .. } if tag == "ev" && *session == aid && matches!(args.first(), Some(V::Str(n)) if n == "m.relayed") => Some(args),
                _ => None,
            })
            .collect();
        rep.evaluations += 1;
        if relayed.len() != 2 {
            rep.violation("event-not-delivered:m.relayed", &format!("[{}] m.relayed was processed {} times by session A, expected 2 (from B and from the child)", dm, relayed.len()), w.clone());
        }
        let want = map(&[("o", nested.clone())]);
        for args in relayed {
            let got = args.get(6).cloned().unwrap_or(V::NoneV);
            if !loose(&got, &want) {
                rep.violation("payload:m.relayed", &format!("[{}] a nested payload relayed by its receiver arrives as {} instead of {}", dm, got.show(), want.show()), w.clone());
            }
        }
        let deeps: Vec<&Vec<V>> = log
            .iter()
            .filter_map(|e| match &e.ev {
                Ev::Mark { tag, args, .. } if tag == "deep" => Some(args),
                _ => None,
            })
            .collect();
        for d in &deeps {
            let ok = d.len() == 2 && loose(&d[0], &V::Int(2)) && loose(&d[1], &V::Str("x".into()));
            if !ok {
                rep.violation("payload:nested-access", &format!("[{}] _event.data.o.k[1].z / _event.data.o.s read {:?} at the receiver instead of 2 / 'x'", dm, d.iter().map(|v| v.show()).collect::<Vec<_>>()), w.clone());
            }
        }
        if deeps.len() != 2 {
            rep.violation("payload:nested-access", &format!("[{}] the nested payload was readable at {} of 2 receivers", dm, deeps.len()), w.clone());
        }
        rep.count("nested_payloads_relayed", 2);
    }
    if genids.len() == 2 && genids[0] == genids[1] {
        rep.violation("generated-sendid-not-unique", &format!("[{}] two <send idlocation> generated the same id {}", dm, genids[0]), w.clone());
    }
    if rep.samples.len() < rep.max_samples {
        rep.sample(json!({"datamodel": dm, "sessions": {"A": aid, "B": bid, "C": cid}, "receptions": receptions.iter().map(|(k, v)| (k.clone(), v.iter().map(|r| format!("{}{}", r.0, if r.1 {":internal"} else {":external"})).collect::<Vec<_>>())).collect::<BTreeMap<_, _>>()}));
    }
}

const UNIQ_DOC: &str = r##"<scxml xmlns="http://www.w3.org/2005/07/scxml" version="1.0" datamodel="rfsm-expression" initial="u">
 <datamodel><data id="g1" expr="''"/><data id="g2" expr="''"/><data id="i1" expr="''"/><data id="i2" expr="''"/><data id="i3" expr="''"/><data id="i4" expr="''"/></datamodel>
 <state id="u">
  <invoke idlocation="i1"><content><scxml xmlns="http://www.w3.org/2005/07/scxml" datamodel="rfsm-expression"><state id="k"><onentry><script>mark('sid', _sessionid)</script></onentry></state></scxml></content></invoke>
  <invoke idlocation="i2"><content><scxml xmlns="http://www.w3.org/2005/07/scxml" datamodel="rfsm-expression"><state id="k"><onentry><script>mark('sid', _sessionid)</script></onentry></state></scxml></content></invoke>
  <invoke idlocation="i3"><content><scxml xmlns="http://www.w3.org/2005/07/scxml" datamodel="rfsm-expression"><state id="k"><onentry><script>mark('sid', _sessionid)</script></onentry></state></scxml></content></invoke>
  <invoke idlocation="i4"><content><scxml xmlns="http://www.w3.org/2005/07/scxml" datamodel="rfsm-expression"><state id="k"><onentry><script>mark('sid', _sessionid)</script></onentry></state></scxml></content></invoke>
  <onentry><script>mark('sid', _sessionid)</script><send event="x1" idlocation="g1"/><send event="x2" idlocation="g2"/><script>mark('sendids', g1, g2)</script></onentry>
  <transition event="report"><script>mark('invokeids', i1, i2, i3, i4)</script></transition>
 </state>
</scxml>"##;

fn uniqueness(rounds: usize, rep: &mut Report) {
    for round in 0..rounds {
        let mut case = Case::new();
        let threads = 16;
        let barrier = Arc::new(Barrier::new(threads));
        let mut hs = Vec::new();
        for _ in 0..threads {
            let ex = case.executor.clone();
            let actions = case.actions.get_copy();
            let b = barrier.clone();
            hs.push(std::thread::spawn(move || {
                let f = parse_xml(UNIQ_DOC).unwrap();
                b.wait();
                let s = rufsm::fsm::start_fsm(f, actions, Box::new(ex));
                s.session_id
            }));
        }
        let mut root_ids = Vec::new();
        for h in hs {
            if let Ok(id) = h.join() {
                root_ids.push(id);
            }
        }
        let count = |tag: &str| rec::snapshot_log().iter().filter(|e| matches!(&e.ev, Ev::Mark { tag: t, .. } if t == tag)).count();
        let t0 = std::time::Instant::now();
        while count("sid") < threads * 5 && t0.elapsed() < Duration::from_secs(20) {
            std::thread::sleep(Duration::from_millis(10));
        }
        for id in &root_ids {
            let _ = case.executor.send_to_session(*id, rufsm::fsm::Event::new_simple("report"));
        }
        let t0 = std::time::Instant::now();
        while count("invokeids") < threads && t0.elapsed() < Duration::from_secs(20) {
            std::thread::sleep(Duration::from_millis(10));
        }
        for id in &root_ids {
            let _ = case.executor.send_to_session(*id, rufsm::fsm::Event::new_simple(crate::refsim::CANCEL));
        }
        std::thread::sleep(Duration::from_millis(100));
        let log: Vec<Entry> = rec::take_log();
        rep.evaluations += 1;
        let mut sids: Vec<i64> = Vec::new();
        let mut sendids: Vec<String> = Vec::new();
        let mut invokeids: Vec<String> = Vec::new();
        for e in &log {
            if let Ev::Mark { tag, args, .. } = &e.ev {
                match tag.as_str() {
                    "sid" => {
                        if let Some(V::Int(i)) = args.first() {
                            sids.push(*i);
                        }
                    }
                    "sendids" => sendids.extend(args.iter().filter_map(|a| if let V::Str(s) = a { Some(s.clone()) } else { None })),
                    "invokeids" => invokeids.extend(args.iter().filter_map(|a| if let V::Str(s) = a { Some(s.clone()) } else { None })),
                    _ => {}
                }
            }
        }
        rep.count("sessions_started_concurrently", sids.len() as u64);
        rep.count("generated_sendids_collected", sendids.len() as u64);
        rep.count("generated_invokeids_collected", invokeids.len() as u64);
        rep.nontrivial_key(&format!("uniq:{}:{}", round, sids.len()));
        let w = json!({"round": round, "threads": threads, "document": UNIQ_DOC});
        let uniq = |v: &Vec<String>| v.iter().collect::<BTreeSet<_>>().len() == v.len();
        if sids.iter().collect::<BTreeSet<_>>().len() != sids.len() {
            rep.violation("duplicate-session-id", &format!("session ids of concurrently started sessions are not unique: {:?}", sids), w.clone());
        }
        if sids.len() < threads * 5 {
            rep.inconclusive(&format!("only {} of {} sessions reported their id", sids.len(), threads * 5));
        }
        if !uniq(&sendids) {
            rep.violation("duplicate-generated-sendid", &format!("generated send ids are not unique: {:?}", sendids), w.clone());
        }
        if !uniq(&invokeids) {
            rep.violation("duplicate-generated-invokeid", &format!("generated invoke ids are not unique: {:?}", invokeids), w.clone());
        }
        for i in &invokeids {
            let ok = i.strip_prefix("u.").map(|n| !n.is_empty() && n.chars().all(|c| c.is_ascii_digit())).unwrap_or(false);
            if !ok {
                rep.violation("invokeid-form", &format!("generated invoke id {:?} is not of the form <stateid>.<platformid> (state 'u')", i), w.clone());
                break;
            }
        }
    }
}

/// Many sessions started at the same instant: `threads` host threads meet at a spin barrier before every start (the
/// documents are parsed beforehand, so nothing but the start itself lies between the barrier and the id allocation).
/// All ids handed out must be distinct and every session must be reachable under its id.
fn burst_ids(threads: usize, per_thread: usize, rep: &mut Report) {
    use std::sync::atomic::{AtomicUsize, Ordering};
    // thread 0 starts sessions that wait for `end` (reachability under their id is checked afterwards); the others
    // start sessions that end at once, so that the threads of thousands of sessions do not pile up
    const DOC: &str = r##"<scxml xmlns="http://www.w3.org/2005/07/scxml" version="1.0" datamodel="null" initial="w"><state id="w"><transition event="end" target="f"/></state><final id="f"/></scxml>"##;
    const DOC_SHORT: &str = r##"<scxml xmlns="http://www.w3.org/2005/07/scxml" version="1.0" datamodel="null" initial="f"><final id="f"/></scxml>"##;
    let case = Case::new();
    let arrived = Arc::new(AtomicUsize::new(0));
    let mut hs = Vec::new();
    for t in 0..threads {
        let ex = case.executor.clone();
        let actions = case.actions.get_copy();
        let arrived = arrived.clone();
        hs.push(std::thread::spawn(move || {
            let mut docs: Vec<_> = (0..per_thread).filter_map(|_| parse_xml(if t == 0 { DOC } else { DOC_SHORT }).ok()).collect();
            let mut ids = Vec::new();
            let mut k = 0usize;
            while let Some(f) = docs.pop() {
                k += 1;
                arrived.fetch_add(1, Ordering::SeqCst);
                let t0 = std::time::Instant::now();
                while arrived.load(Ordering::SeqCst) < k * threads {
                    std::hint::spin_loop();
                    if t0.elapsed() > Duration::from_secs(20) {
                        break;
                    }
                }
                let s = rufsm::fsm::start_fsm(f, actions.get_copy(), Box::new(ex.clone()));
                ids.push(s.session_id);
            }
            (t, ids)
        }));
    }
    let mut ids: Vec<u32> = Vec::new();
    let mut waiting: Vec<u32> = Vec::new();
    for h in hs {
        if let Ok((t, v)) = h.join() {
            if t == 0 {
                waiting = v.clone();
            }
            ids.extend(v);
        }
    }
    rep.evaluations += 1;
    rep.count("sessions_started_in_bursts", ids.len() as u64);
    let distinct: BTreeSet<u32> = ids.iter().cloned().collect();
    if distinct.len() != ids.len() {
        let mut seen = BTreeSet::new();
        let dups: Vec<u32> = ids.iter().filter(|i| !seen.insert(**i)).cloned().take(10).collect();
        rep.violation(
            "duplicate-session-id",
            &format!("{} sessions started by {} threads at the same instant got only {} distinct session ids (e.g. {:?} handed out twice)", ids.len(), threads, distinct.len(), dups),
            json!({"threads": threads, "starts_per_thread": per_thread, "document": DOC, "duplicates": dups}),
        );
    }
    // every session is reachable under its id: `end` terminates it
    let mut unreachable = 0;
    for id in &waiting {
        if case.executor.send_to_session(*id, rufsm::fsm::Event::new_simple("end")).is_err() {
            unreachable += 1;
        }
    }
    if unreachable > 0 && distinct.len() == ids.len() {
        rep.violation(
            "session-not-reachable-under-its-id",
            &format!("{} of {} waiting sessions cannot be addressed by the id they were given", unreachable, waiting.len()),
            json!({"threads": threads, "starts_per_thread": per_thread}),
        );
    }
    let _ = rec::take_log();
}


// ---------------------------------------------------------------------------------------------------------
// Ids that are string prefixes of one another.  Session ids are decimal numbers inside `#_scxml_<id>` and invoke
// ids are free text inside `#_<id>`: a comparison by `starts_with` instead of equality only shows when one id is a
// proper prefix of another one that is in use (session 2 and session 20, invoke `pk` and invoke `pk1`).  The
// session counter is process wide, so this scenario runs first in the process, burns ids with sessions that end at
// once and thereby places a third session T and a second parent A2 at ids that start with the first parent's id.
fn pfx_child(hello: &str) -> String {
    format!(
        r##"<scxml xmlns="http://www.w3.org/2005/07/scxml" version="1.0" datamodel="rfsm-expression" initial="c">
 <state id="c">
  <onentry><script>mark('{hello}')</script></onentry>
  <transition event="to"><script>{p}</script><send eventexpr="'m.' + _event.data.n" targetexpr="'#_scxml_' + _event.data.t"><param name="from" expr="'pfx'"/></send><script>mark('sent', _event.data.n)</script></transition>
{recv}
 </state>
</scxml>"##,
        hello = hello,
        p = EVP,
        recv = receive_part()
    )
}

fn pfx_parent() -> String {
    format!(
        r##"<scxml xmlns="http://www.w3.org/2005/07/scxml" version="1.0" datamodel="rfsm-expression" initial="s">
 <state id="s">
  <invoke id="pk"><content>{c0}</content></invoke>
  <invoke id="pk1"><content>{c1}</content></invoke>
  <transition event="tell"><send event="to" target="#_pk"><param name="t" expr="_event.data.t"/><param name="n" expr="_event.data.n"/></send></transition>
  <transition event="tell1"><send event="to" targetexpr="'#_' + 'pk1'"><param name="t" expr="_event.data.t"/><param name="n" expr="_event.data.n"/></send></transition>
{recv}
 </state>
</scxml>"##,
        c0 = pfx_child("hello-pk"),
        c1 = pfx_child("hello-pk1"),
        recv = receive_part()
    )
}

fn prefix_ids(rep: &mut Report) {
    use rufsm::datamodel::Data;
    use rufsm::fsm::{Event, ParamPair};
    let mut case = Case::new();
    let pxml = pfx_parent();
    let mut a = case.start(parse_xml(&pxml).unwrap());
    wait_stable(&mut a, 0);
    let aid = a.session.session_id;
    if aid > 40 {
        // would need more than ~400 throw-away sessions; the scenario is placed first in the process so that this
        // does not happen in practice
        rep.count("prefix_scenario_skipped_ids_already_large", 1);
        a.finish();
        let _ = rec::take_log();
        return;
    }
    // burn ids up to aid*10 - 1
    let filler = r##"<scxml xmlns="http://www.w3.org/2005/07/scxml" version="1.0" datamodel="null" initial="f"><final id="f"/></scxml>"##;
    let mut burned = 0u64;
    loop {
        let mut f = case.start(parse_xml(filler).unwrap());
        let id = f.session.session_id;
        f.finish();
        burned += 1;
        if id + 1 >= aid * 10 {
            break;
        }
        if burned > 500 {
            break;
        }
    }
    let mut t = case.start(parse_xml(&sibling_doc("rfsm-expression")).unwrap());
    wait_stable(&mut t, 0);
    let tid = t.session.session_id;
    let mut a2 = case.start(parse_xml(&pxml).unwrap());
    wait_stable(&mut a2, 0);
    let a2id = a2.session.session_id;
    rep.count("prefix_scenario_throwaway_sessions", burned);
    let is_pfx = |short: u32, long: u32| long != short && long.to_string().starts_with(&short.to_string());
    if !is_pfx(aid, tid) || !is_pfx(aid, a2id) {
        rep.inconclusive(&format!("prefix scenario: ids {} / {} / {} do not have the intended prefix relation", aid, tid, a2id));
        a.finish();
        a2.finish();
        t.finish();
        let _ = rec::take_log();
        return;
    }
    let tell = |r: &Running, ev: &str, target: u32, n: &str| {
        let mut e = Event::new_simple(ev);
        e.param_values = Some(vec![ParamPair::new("t", &Data::Integer(target as i64)), ParamPair::new("n", &Data::String(n.to_string()))]);
        r.send_event(e);
    };
    // (name, sending parent, which child, target session)
    //  px1: child pk  of A  -> T   (T's id starts with the id of the sender's parent)
    //  px4: child pk1 of A  -> T   (addressed through the invoke id that has `pk` as prefix)
    //  px3: child pk  of A  -> A2  (ditto, and A2 is itself a parent)
    //  px2: child pk  of A2 -> A   (the target's id is a prefix of the id of the sender's parent)
    //  px5: child pk1 of A2 -> T   (neither is a prefix of the other: control)
    tell(&a, "tell", tid, "px1");
    tell(&a, "tell1", tid, "px4");
    tell(&a, "tell", a2id, "px3");
    tell(&a2, "tell", aid, "px2");
    tell(&a2, "tell1", tid, "px5");
    let names = ["px1", "px4", "px3", "px2", "px5"];
    let t0 = std::time::Instant::now();
    let all_sent = loop {
        let l = rec::snapshot_log();
        let n = names.iter().filter(|n| l.iter().any(|e| matches!(&e.ev, Ev::Mark { tag, args, .. } if tag == "sent" && matches!(args.first(), Some(V::Str(s)) if s == *n)))).count();
        if n == names.len() {
            break true;
        }
        if t0.elapsed() > Duration::from_secs(90) {
            break false;
        }
        std::thread::sleep(Duration::from_millis(5));
    };
    // the `<send>`s have returned: every event is in its target's queue (or was dropped).  One host event behind them
    // per receiver; when it has been processed, so has everything before it, and the replies are queued at the children.
    let mut fenced = true;
    for r in [&t, &a, &a2] {
        r.send("bar.h");
    }
    let t1 = std::time::Instant::now();
    loop {
        let l = rec::snapshot_log();
        let n = [tid, aid, a2id].iter().filter(|sid| l.iter().any(|e| matches!(&e.ev, Ev::Mark { tag, args, session, .. } if tag == "ev" && session == *sid && matches!(args.first(), Some(V::Str(s)) if s == "bar.h")))).count();
        if n == 3 {
            break;
        }
        if t1.elapsed() > Duration::from_secs(90) {
            fenced = false;
            break;
        }
        std::thread::sleep(Duration::from_millis(5));
    }
    // ending the parents cancels the children, which process what is queued before the cancel event
    let ended = a.finish() & a2.finish();
    let t2 = std::time::Instant::now();
    let ttr = t.tracer;
    let kids_ended = loop {
        if rec::session_threads_of().iter().filter(|(tr, fin)| *tr != ttr && !*fin).count() == 0 {
            break true;
        }
        if t2.elapsed() > Duration::from_secs(90) {
            break false;
        }
        std::thread::sleep(Duration::from_millis(5));
    };
    t.finish();
    let log = rec::take_log();
    if !(all_sent && fenced && ended && kids_ended) {
        rep.inconclusive("prefix scenario: a watchdog fired (sends / fence / end of sessions not observed)");
        return;
    }
    rep.evaluations += 1;
    let w = json!({"scenario": "ids that are prefixes of one another", "parent_xml": pxml, "session_ids": {"A": aid, "T": tid, "A2": a2id}});
    // children by hello marks
    let kid = |parent: u32, tag: &str| {
        log.iter().find_map(|e| match &e.ev {
            Ev::Mark { tag: t, session, parent_session, .. } if t == tag && *parent_session == Some(parent) => Some(*session),
            _ => None,
        })
    };
    let (c_a, c1_a, c_a2, c1_a2) = match (kid(aid, "hello-pk"), kid(aid, "hello-pk1"), kid(a2id, "hello-pk"), kid(a2id, "hello-pk1")) {
        (Some(x), Some(y), Some(z), Some(u)) => (x, y, z, u),
        _ => {
            rep.violation("child-not-started", "prefix scenario: an invoked child never ran", w);
            return;
        }
    };
    // which child executed the send of each name (the `to` event must have gone to the invoke id that was named)
    let sender_of = |n: &str| {
        log.iter().find_map(|e| match &e.ev {
            Ev::Mark { tag, args, session, .. } if tag == "sent" && matches!(args.first(), Some(V::Str(s)) if s == n) => Some(*session),
            _ => None,
        })
    };
    let plan = [("px1", c_a, tid), ("px4", c1_a, tid), ("px3", c_a, a2id), ("px2", c_a2, aid), ("px5", c1_a2, tid)];
    for (n, sender, target) in plan {
        if sender_of(n) != Some(sender) {
            rep.violation(
                "invoke-id-target-reached-other-child",
                &format!("prefix scenario: the event addressed to the invoke of session {} was processed by session {:?}", sender, sender_of(n)),
                w.clone(),
            );
            continue;
        }
        for (name, at, from) in [(format!("m.{}", n), target, sender), (format!("reply.m.{}", n), sender, target)] {
            let got: Vec<(u32, &Vec<V>)> = log
                .iter()
                .filter_map(|e| match &e.ev {
                    Ev::Mark { tag, args, session, .. } if tag == "ev" && matches!(args.first(), Some(V::Str(s)) if *s == name) => Some((*session, args)),
                    _ => None,
                })
                .collect();
            rep.count("prefix_scenario_events_judged", 1);
            if got.is_empty() {
                rep.violation(
                    "event-not-delivered:id-is-prefix-of-another-id",
                    &format!("prefix scenario: {} sent by session {} to #_scxml_{} was never processed (sessions A={} T={} A2={})", name, from, at, aid, tid, a2id),
                    w.clone(),
                );
                continue;
            }
            if got.len() > 1 || got[0].0 != at {
                rep.violation(
                    "event-delivered-elsewhere:id-is-prefix-of-another-id",
                    &format!("prefix scenario: {} for session {} was processed by {:?}", name, at, got.iter().map(|g| g.0).collect::<Vec<_>>()),
                    w.clone(),
                );
                continue;
            }
            let args = got[0].1;
            let origin_ok = matches!(args.get(3), Some(V::Str(o)) if *o == format!("#_scxml_{}", from));
            if !origin_ok {
                rep.violation("wrong-origin", &format!("prefix scenario: {} arrived with origin {:?}, sent by session {}", name, args.get(3), from), w.clone());
            }
            rep.nontrivial_key(&format!("pfx:{}", name));
        }
    }
    rep.count("prefix_scenarios_completed", 1);
}

pub fn run(args: &Args, rep: &mut Report) {
    prefix_ids(rep);
    let dms: Vec<&str> = if cfg!(feature = "full") { vec!["rfsm-expression", "ecmascript"] } else { vec!["rfsm-expression"] };
    let reps = args.scale(1, 6);
    for _ in 0..reps {
        for dm in &dms {
            routing(dm, rep);
        }
    }
    uniqueness(args.scale(1, 8), rep);
    burst_ids(8, args.scale(60, 200), rep);
}
