//! Runtime-monitoring harness for BWeng20/rFSM (see /verif/DESIGN.md).
pub mod rng;
pub mod report;
pub mod phook;
pub mod expr_ref;
pub mod exprrun;
pub mod c10;

use report::{Args, Report};

pub fn dispatch(cmd: &str, args: &Args, rep: &mut Report) -> bool {
    match cmd {
        "C10" => c10::run(args, rep),
        _ => return false,
    }
    true
}

pub fn selftests() -> Vec<(&'static str, Result<(), String>)> {
    vec![("expr_ref", c10::selftest())]
}
