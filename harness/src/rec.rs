//! Observation at the public boundary: a recording `Tracer` (+ factory for invoked children), the
//! probe actions `mark` / `gate`, the event log and the primitives to drive a session
//! deterministically (idle barrier, gates, start latch).

use crate::expr_ref::V;
use rufsm::actions::{Action, ActionWrapper};
use rufsm::datamodel::{Data, GlobalDataArc};
use rufsm::fsm::{Event, GlobalData, State};
use rufsm::tracer::{TraceMode, Tracer, TracerFactory};
use std::collections::{HashMap, HashSet};
use std::fmt;
use std::sync::atomic::{AtomicU32, AtomicU64, Ordering};
use std::sync::{Condvar, Mutex, OnceLock};
use std::time::{Duration, Instant};

#[derive(Clone, Debug)]
pub struct EvRec {
    pub name: String,
    pub etype: String,
    pub sendid: Option<String>,
    pub origin: Option<String>,
    pub origintype: Option<String>,
    pub invokeid: Option<String>,
    pub params: Option<Vec<(String, V)>>,
    pub content: Option<V>,
}

impl EvRec {
    pub fn from_event(e: &Event) -> EvRec {
        EvRec {
            name: e.name.clone(),
            etype: e.etype.name().to_string(),
            sendid: e.sendid.clone(),
            origin: e.origin.clone(),
            origintype: e.origin_type.clone(),
            invokeid: e.invoke_id.clone(),
            params: e.param_values.as_ref().map(|v| {
                v.iter()
                    .map(|p| (p.name.clone(), V::from_data(&p.value).unwrap_or(V::Str("<error>".into()))))
                    .collect()
            }),
            content: e.content.as_ref().map(|c| V::from_data(c).unwrap_or(V::Str("<error>".into()))),
        }
    }
    pub fn brief(&self) -> String {
        let mut s = self.name.clone();
        if let Some(i) = &self.invokeid {
            s.push_str(&format!(" invokeid={}", i));
        }
        if let Some(p) = &self.params {
            s.push_str(&format!(
                " params={{{}}}",
                p.iter().map(|(k, v)| format!("{}:{}", k, v.show())).collect::<Vec<_>>().join(",")
            ));
        }
        if let Some(c) = &self.content {
            s.push_str(&format!(" content={}", c.show()));
        }
        s
    }
}

#[derive(Clone, Debug)]
pub enum Ev {
    Enter(u32, String),
    Exit(u32, String),
    MIn(String),
    MOut(String),
    Enabled(Vec<u32>),
    ISend(EvRec),
    IRecv(EvRec),
    XRecv(EvRec),
    Mark {
        tag: String,
        args: Vec<V>,
        config: Vec<u32>,
        session: u32,
        parent_session: Option<u32>,
        caller_invoke: Option<String>,
    },
    /// configuration sample: where = "microstep" | "idle" | "final"
    Config(String, Vec<u32>),
    /// state of the session's own bookkeeping at the moment it is about to block on its external queue
    /// (sampled by the tracer on the session thread through the Verif_Hooks accessor):
    /// events still in the internal queue, states whose invokes are still pending
    AtIdle { internal_queue: usize, states_to_invoke: usize },
    Trace(String),
}

#[derive(Clone, Debug)]
pub struct Entry {
    pub seq: u64,
    pub tid: u64,
    /// tracer id (0 for entries written by actions or the harness)
    pub tracer: u32,
    pub t: Instant,
    pub ev: Ev,
}

impl Entry {
    pub fn line(&self) -> String {
        let body = match &self.ev {
            Ev::Enter(_, n) => format!("ENTER {}", n),
            Ev::Exit(_, n) => format!("EXIT {}", n),
            Ev::MIn(m) => format!(">> {}", m),
            Ev::MOut(m) => format!("<< {}", m),
            Ev::Enabled(t) => format!("ENABLED {:?}", t),
            Ev::ISend(e) => format!("ISEND {}", e.brief()),
            Ev::IRecv(e) => format!("IRECV {}", e.brief()),
            Ev::XRecv(e) => format!("XRECV {}", e.brief()),
            Ev::Mark { tag, args, session, .. } => format!(
                "MARK {}({}) s{}",
                tag,
                args.iter().map(|a| a.show()).collect::<Vec<_>>().join(","),
                session
            ),
            Ev::Config(w, c) => format!("CONFIG@{} {:?}", w, c),
            Ev::AtIdle { internal_queue, states_to_invoke } => format!("ATIDLE iq={} toinvoke={}", internal_queue, states_to_invoke),
            Ev::Trace(t) => format!("TRACE {}", t),
        };
        format!("[t{} #{}] {}", self.tid, self.tracer, body)
    }
}

#[derive(Default)]
struct Gate {
    arrived: u64,
    released: u64,
}

#[derive(Default)]
struct World {
    epoch: u64,
    log: Vec<Entry>,
    seq: u64,
    idle: HashMap<u32, u64>,
    finished: HashSet<u32>,
    /// tracers dropped while their thread was unwinding: the session thread died of a panic nobody caught
    died: HashSet<u32>,
    latched: HashSet<u32>,
    globals: HashMap<u32, GlobalDataArc>,
    gates: HashMap<i64, Gate>,
    /// tracers created by the factory (children), in creation order
    factory_tracers: Vec<u32>,
    tracer_thread: HashMap<u32, u64>,
    tracer_thread_name: HashMap<u32, String>,
    xrecv: HashMap<u32, u64>,
    /// number of `xq:` marks (self-sends announced by the document) in this case
    selfsends: u64,
    /// the log hit its cap (runaway session): waiters give up at once
    overflow: bool,
}

pub const LOG_CAP: usize = 400_000;

struct Shared {
    w: Mutex<World>,
    cv: Condvar,
}

fn shared() -> &'static Shared {
    static S: OnceLock<Shared> = OnceLock::new();
    S.get_or_init(|| Shared {
        w: Mutex::new(World::default()),
        cv: Condvar::new(),
    })
}

fn lock() -> std::sync::MutexGuard<'static, World> {
    match shared().w.lock() {
        Ok(g) => g,
        Err(p) => p.into_inner(),
    }
}

static NEXT_TID: AtomicU64 = AtomicU64::new(1);
static NEXT_TRACER: AtomicU32 = AtomicU32::new(1);
static EPOCH: AtomicU64 = AtomicU64::new(1);

thread_local! {
    static TID: u64 = NEXT_TID.fetch_add(1, Ordering::Relaxed);
}

pub fn tid() -> u64 {
    TID.try_with(|t| *t).unwrap_or(0)
}

fn push(epoch: u64, tracer: u32, ev: Ev) {
    let mut w = lock();
    if w.epoch != epoch {
        return;
    }
    if w.log.len() >= LOG_CAP {
        if !w.overflow {
            w.overflow = true;
            drop(w);
            shared().cv.notify_all();
        }
        return;
    }
    w.seq += 1;
    let seq = w.seq;
    w.log.push(Entry {
        seq,
        tid: tid(),
        tracer,
        t: Instant::now(),
        ev,
    });
}

/// Starts a new case: everything recorded by tracers / actions of earlier cases is dropped.
pub fn begin_case() -> u64 {
    install_factory();
    let e = EPOCH.fetch_add(1, Ordering::SeqCst) + 1;
    let mut w = lock();
    w.epoch = e;
    w.log.clear();
    w.seq = 0;
    w.idle.clear();
    w.finished.clear();
    w.died.clear();
    w.latched.clear();
    w.globals.clear();
    w.gates.clear();
    w.factory_tracers.clear();
    w.tracer_thread.clear();
    w.tracer_thread_name.clear();
    w.xrecv.clear();
    w.selfsends = 0;
    w.overflow = false;
    drop(w);
    shared().cv.notify_all();
    e
}

pub fn current_epoch() -> u64 {
    lock().epoch
}

pub fn take_log() -> Vec<Entry> {
    let mut w = lock();
    std::mem::take(&mut w.log)
}

pub fn snapshot_log() -> Vec<Entry> {
    lock().log.clone()
}

pub fn log_len() -> usize {
    lock().log.len()
}

pub fn harness_note(text: &str) {
    let e = current_epoch();
    push(e, 0, Ev::Trace(text.to_string()));
}

// ---------------------------------------------------------------------------------------------
// Tracer

pub struct RecTracer {
    pub id: u32,
    epoch: u64,
    /// wait in `enter_method("interpret")` until the harness releases the latch
    latch: bool,
    /// record all method enter/exit (else only the interesting ones)
    all_methods: bool,
}

impl Drop for RecTracer {
    fn drop(&mut self) {
        // The tracer is owned by the Fsm on the session thread: it is dropped during unwinding only when a panic
        // leaves `interpret` uncaught (a panic the platform catches itself never gets here).
        if std::thread::panicking() {
            let mut w = lock();
            if w.epoch == self.epoch {
                w.died.insert(self.id);
            }
            drop(w);
            shared().cv.notify_all();
        }
    }
}

impl fmt::Debug for RecTracer {
    fn fmt(&self, f: &mut fmt::Formatter<'_>) -> fmt::Result {
        write!(f, "RecTracer#{}", self.id)
    }
}

impl RecTracer {
    pub fn new(latch: bool) -> RecTracer {
        let id = NEXT_TRACER.fetch_add(1, Ordering::Relaxed);
        let epoch = current_epoch();
        if latch {
            lock().latched.insert(id);
        }
        RecTracer {
            id,
            epoch,
            latch,
            all_methods: false,
        }
    }
}

fn interesting(what: &str) -> bool {
    matches!(
        what,
        "microstep"
            | "externalQueue.dequeue"
            | "internalQueue.dequeue"
            | "interpret"
            | "mainEventLoop"
            | "selectTransitions"
            | "selectEventlessTransitions"
            | "exitStates"
            | "enterStates"
            | "cancelInvoke"
            | "executeGlobalScriptElement"
    )
}

impl Tracer for RecTracer {
    fn trace(&self, msg: &str) {
        push(self.epoch, self.id, Ev::Trace(msg.to_string()));
        if msg.starts_with("Referenced state") || msg.starts_with("No <scxml>") {
            // Fsm::valid() failed: interpret() returns without further trace calls
            let mut w = lock();
            if w.epoch == self.epoch {
                w.finished.insert(self.id);
            }
            drop(w);
            shared().cv.notify_all();
        }
    }
    fn enter(&self) {}
    fn leave(&self) {}
    fn enable_trace(&mut self, _flag: TraceMode) {}
    fn disable_trace(&mut self, _flag: TraceMode) {}
    fn is_trace(&self, _flag: TraceMode) -> bool {
        true
    }
    fn trace_mode(&self) -> TraceMode {
        TraceMode::ALL
    }

    fn enter_method(&self, what: &str) {
        if !(self.all_methods || interesting(what)) {
            return;
        }
        if what == "interpret" {
            let mut w = lock();
            if w.epoch == self.epoch {
                w.tracer_thread.insert(self.id, tid());
                w.tracer_thread_name.insert(self.id, std::thread::current().name().unwrap_or("?").to_string());
            }
            if self.latch {
                let deadline = Instant::now() + crate::session::wd(Duration::from_secs(30));
                while w.epoch == self.epoch && w.latched.contains(&self.id) {
                    let now = Instant::now();
                    if now >= deadline {
                        break;
                    }
                    w = match shared().cv.wait_timeout(w, deadline - now) {
                        Ok((g, _)) => g,
                        Err(p) => p.into_inner().0,
                    };
                }
            }
        }
        if what == "externalQueue.dequeue" {
            // invariant hook at the quiescent point: the session thread holds none of its locks here
            let arc = {
                let w = lock();
                if w.epoch == self.epoch {
                    w.globals.get(&self.id).cloned()
                } else {
                    None
                }
            };
            if let Some(a) = arc {
                // try_lock: another thread (a timer, a sender) may hold the lock for a moment; never block here
                let mut got = None;
                for _ in 0..200 {
                    match a.try_lock() {
                        Ok(g) => {
                            got = Some((g.verif_internal_queue_len(), g.statesToInvoke.size()));
                            break;
                        }
                        Err(std::sync::TryLockError::Poisoned(p)) => {
                            let g = p.into_inner();
                            got = Some((g.verif_internal_queue_len(), g.statesToInvoke.size()));
                            break;
                        }
                        Err(std::sync::TryLockError::WouldBlock) => std::thread::yield_now(),
                    }
                }
                match got {
                    Some((iq, ti)) => push(self.epoch, self.id, Ev::AtIdle { internal_queue: iq, states_to_invoke: ti }),
                    None => push(self.epoch, self.id, Ev::Trace("atidle-sample-skipped".into())),
                }
            }
        }
        push(self.epoch, self.id, Ev::MIn(what.to_string()));
        if what == "externalQueue.dequeue" {
            let mut w = lock();
            if w.epoch == self.epoch {
                *w.idle.entry(self.id).or_insert(0) += 1;
            }
            drop(w);
            shared().cv.notify_all();
        }
    }

    fn exit_method(&self, what: &str) {
        if !(self.all_methods || interesting(what)) {
            return;
        }
        if what == "microstep" {
            // configuration sample (only when the harness has handed over the session's global data)
            let arc = {
                let w = lock();
                if w.epoch == self.epoch {
                    w.globals.get(&self.id).cloned()
                } else {
                    None
                }
            };
            if let Some(a) = arc {
                let sample = match a.try_lock() {
                    Ok(g) => Some(g.configuration.iterator().cloned().collect::<Vec<u32>>()),
                    Err(_) => None,
                };
                match sample {
                    Some(c) => push(self.epoch, self.id, Ev::Config("microstep".into(), c)),
                    None => push(self.epoch, self.id, Ev::Trace("config-sample-skipped".into())),
                }
            }
        }
        push(self.epoch, self.id, Ev::MOut(what.to_string()));
        if what == "interpret" {
            let mut w = lock();
            if w.epoch == self.epoch {
                w.finished.insert(self.id);
            }
            drop(w);
            shared().cv.notify_all();
        }
    }

    fn event_internal_send(&self, what: &Event) {
        push(self.epoch, self.id, Ev::ISend(EvRec::from_event(what)));
    }
    fn event_internal_received(&self, what: &Event) {
        push(self.epoch, self.id, Ev::IRecv(EvRec::from_event(what)));
    }
    fn event_external_send(&self, _what: &Event) {}
    fn event_external_received(&mut self, what: &Event) {
        push(self.epoch, self.id, Ev::XRecv(EvRec::from_event(what)));
        let mut w = lock();
        if w.epoch == self.epoch {
            *w.xrecv.entry(self.id).or_insert(0) += 1;
        }
        drop(w);
        shared().cv.notify_all();
    }
    fn trace_state(&self, _what: &str, _s: &State) {}
    fn trace_enter_state(&self, s: &State) {
        push(self.epoch, self.id, Ev::Enter(s.id, s.name.clone()));
    }
    fn trace_exit_state(&self, s: &State) {
        push(self.epoch, self.id, Ev::Exit(s.id, s.name.clone()));
    }
    fn trace_argument(&self, _what: &str, _d: &dyn fmt::Display) {}
    fn trace_result(&self, what: &str, d: &dyn fmt::Display) {
        if what == "enabledTransitions" {
            let s = d.to_string();
            let ids: Vec<u32> = s
                .trim_matches(|c| c == '[' || c == ']')
                .split(',')
                .filter_map(|x| x.trim().parse().ok())
                .collect();
            push(self.epoch, self.id, Ev::Enabled(ids));
        }
    }
}

struct RecFactory {}

impl TracerFactory for RecFactory {
    fn create(&mut self) -> Box<dyn Tracer> {
        let t = RecTracer::new(false);
        let mut w = lock();
        if w.epoch == t.epoch {
            w.factory_tracers.push(t.id);
        }
        Box::new(t)
    }
}

pub fn install_factory() {
    static ONCE: OnceLock<()> = OnceLock::new();
    ONCE.get_or_init(|| {
        rufsm::tracer::set_tracer_factory(Box::new(RecFactory {}));
    });
}

// ---------------------------------------------------------------------------------------------
// Actions

#[derive(Clone)]
pub struct MarkAction {
    pub epoch: u64,
}

impl Action for MarkAction {
    fn execute(&self, arguments: &[Data], global: &GlobalData) -> Result<Data, String> {
        let mut it = arguments.iter();
        let tag = match it.next() {
            Some(Data::String(s)) => s.clone(),
            Some(d) => d.to_string(),
            None => "".to_string(),
        };
        let args: Vec<V> = it
            .map(|d| V::from_data(d).unwrap_or_else(|e| V::Str(format!("<error:{}>", e))))
            .collect();
        if tag.starts_with("xq:") {
            let mut w = lock();
            if w.epoch == self.epoch {
                w.selfsends += 1;
            }
        }
        push(
            self.epoch,
            0,
            Ev::Mark {
                tag,
                args,
                config: global.configuration.iterator().cloned().collect(),
                session: global.session_id,
                parent_session: global.parent_session_id,
                caller_invoke: global.caller_invoke_id.clone(),
            },
        );
        Ok(Data::Boolean(true))
    }
    fn get_copy(&self) -> Box<dyn Action> {
        Box::new(self.clone())
    }
}

#[derive(Clone)]
pub struct GateAction {
    pub epoch: u64,
}

impl Action for GateAction {
    fn execute(&self, arguments: &[Data], _global: &GlobalData) -> Result<Data, String> {
        let n = match arguments.first() {
            Some(Data::Integer(i)) => *i,
            Some(Data::Double(d)) => *d as i64,
            _ => 0,
        };
        let mut w = lock();
        if w.epoch != self.epoch {
            return Ok(Data::Boolean(true));
        }
        let my = {
            let g = w.gates.entry(n).or_default();
            g.arrived += 1;
            g.arrived
        };
        shared().cv.notify_all();
        let deadline = Instant::now() + crate::session::wd(Duration::from_secs(30));
        loop {
            if w.epoch != self.epoch {
                break;
            }
            if w.gates.get(&n).map(|g| g.released >= my).unwrap_or(true) {
                break;
            }
            let now = Instant::now();
            if now >= deadline {
                drop(w);
                push(self.epoch, 0, Ev::Trace(format!("gate-timeout {}", n)));
                return Ok(Data::Boolean(true));
            }
            w = match shared().cv.wait_timeout(w, deadline - now) {
                Ok((g, _)) => g,
                Err(p) => p.into_inner().0,
            };
        }
        Ok(Data::Boolean(true))
    }
    fn get_copy(&self) -> Box<dyn Action> {
        Box::new(self.clone())
    }
}

/// waits until `count` arrivals at gate n; false on timeout
pub fn wait_gate(n: i64, count: u64, timeout: Duration) -> bool {
    let deadline = Instant::now() + timeout;
    let mut w = lock();
    loop {
        if w.gates.get(&n).map(|g| g.arrived >= count).unwrap_or(false) {
            return true;
        }
        let now = Instant::now();
        if now >= deadline {
            return false;
        }
        w = match shared().cv.wait_timeout(w, deadline - now) {
            Ok((g, _)) => g,
            Err(p) => p.into_inner().0,
        };
    }
}

/// releases all threads that have arrived at gate n so far (and `ahead` future arrivals)
pub fn release_gate(n: i64, ahead: u64) {
    let mut w = lock();
    let g = w.gates.entry(n).or_default();
    g.released = std::cmp::max(g.released, g.arrived) + ahead;
    drop(w);
    shared().cv.notify_all();
}

/// pre-opens a gate for every future arrival
pub fn open_gate(n: i64) {
    let mut w = lock();
    w.gates.entry(n).or_default().released = u64::MAX / 2;
    drop(w);
    shared().cv.notify_all();
}

pub fn make_actions(epoch: u64) -> ActionWrapper {
    let mut a = ActionWrapper::new();
    a.add_action("mark", Box::new(MarkAction { epoch }));
    a.add_action("gate", Box::new(GateAction { epoch }));
    a
}

// ---------------------------------------------------------------------------------------------
// Barriers

pub fn register_global(tracer: u32, arc: GlobalDataArc) {
    lock().globals.insert(tracer, arc);
}

pub fn release_latch(tracer: u32) {
    lock().latched.remove(&tracer);
    shared().cv.notify_all();
}

#[derive(Debug, PartialEq, Clone, Copy)]
pub enum Wait {
    Idle,
    Finished,
    Timeout,
}

pub fn idle_count(tracer: u32) -> u64 {
    *lock().idle.get(&tracer).unwrap_or(&0)
}

pub fn is_finished(tracer: u32) -> bool {
    lock().finished.contains(&tracer)
}

/// waits until the tracer's session has reached its n-th blocking wait for an external event, or ended
pub fn wait_idle(tracer: u32, n: u64, timeout: Duration) -> Wait {
    let deadline = Instant::now() + timeout;
    let mut w = lock();
    loop {
        if w.finished.contains(&tracer) {
            return Wait::Finished;
        }
        if *w.idle.get(&tracer).unwrap_or(&0) >= n {
            return Wait::Idle;
        }
        if w.overflow || session_died(&w, tracer) {
            return Wait::Timeout;
        }
        let now = Instant::now();
        if now >= deadline {
            return Wait::Timeout;
        }
        w = match shared().cv.wait_timeout(w, (deadline - now).min(Duration::from_millis(100))) {
            Ok((g, _)) => g,
            Err(p) => p.into_inner().0,
        };
    }
}

/// the session's thread has panicked: nothing it is waited for will happen (the caller sees a watchdog result at
/// once and finds the panic on record)
fn session_died(w: &World, tracer: u32) -> bool {
    w.died.contains(&tracer)
}

pub fn wait_finished(tracer: u32, timeout: Duration) -> bool {
    let deadline = Instant::now() + timeout;
    let mut w = lock();
    loop {
        if w.finished.contains(&tracer) {
            return true;
        }
        if w.overflow || session_died(&w, tracer) {
            return false;
        }
        let now = Instant::now();
        if now >= deadline {
            return false;
        }
        w = match shared().cv.wait_timeout(w, (deadline - now).min(Duration::from_millis(100))) {
            Ok((g, _)) => g,
            Err(p) => p.into_inner().0,
        };
    }
}

pub fn factory_tracers() -> Vec<u32> {
    lock().factory_tracers.clone()
}

/// (thread name, finished) of every session whose interpret() started in this case
pub fn session_threads() -> Vec<(String, bool)> {
    let w = lock();
    w.tracer_thread_name.iter().map(|(t, n)| (n.clone(), w.finished.contains(t))).collect()
}

/// (tracer id, finished) of every session thread that entered `interpret` in this case
pub fn session_threads_of() -> Vec<(u32, bool)> {
    let w = lock();
    w.tracer_thread_name.keys().map(|t| (*t, w.finished.contains(t))).collect()
}

pub fn tracer_thread(tracer: u32) -> Option<u64> {
    lock().tracer_thread.get(&tracer).cloned()
}

/// harness-side configuration sample (quiescent: the session is blocked in the external queue)
pub fn sample_config(tracer: u32, arc: &GlobalDataArc, whr: &str) {
    let c = match arc.lock() {
        Ok(g) => g.configuration.iterator().cloned().collect::<Vec<u32>>(),
        Err(p) => p.into_inner().configuration.iterator().cloned().collect::<Vec<u32>>(),
    };
    let e = current_epoch();
    push(e, tracer, Ev::Config(whr.to_string(), c));
}

pub fn overflowed() -> bool {
    lock().overflow
}

/// Waits until the session is blocked in its external queue with everything consumed:
/// `sent` events were sent by the harness, self-sends are announced by `xq:` marks.
pub fn wait_quiescent(tracer: u32, sent: u64, timeout: Duration) -> Wait {
    let deadline = Instant::now() + timeout;
    let mut w = lock();
    loop {
        if w.finished.contains(&tracer) {
            return Wait::Finished;
        }
        let x = *w.xrecv.get(&tracer).unwrap_or(&0);
        let i = *w.idle.get(&tracer).unwrap_or(&0);
        if i == x + 1 && x == sent + w.selfsends {
            return Wait::Idle;
        }
        if w.overflow || session_died(&w, tracer) {
            return Wait::Timeout;
        }
        let now = Instant::now();
        if now >= deadline {
            return Wait::Timeout;
        }
        w = match shared().cv.wait_timeout(w, (deadline - now).min(Duration::from_millis(100))) {
            Ok((g, _)) => g,
            Err(p) => p.into_inner().0,
        };
    }
}

/// `wait_finished` with a progress-based watchdog (see `wait_quiescent_progress`)
pub fn wait_finished_progress(tracer: u32, idle: Duration, cap: Duration) -> bool {
    let t0 = Instant::now();
    let mut last = u64::MAX;
    let mut last_change = Instant::now();
    loop {
        if wait_finished(tracer, Duration::from_millis(200)) {
            return true;
        }
        let x = {
            let w = lock();
            if w.overflow || session_died(&w, tracer) {
                return false;
            }
            *w.xrecv.get(&tracer).unwrap_or(&0)
        };
        if x != last {
            last = x;
            last_change = Instant::now();
        }
        if last_change.elapsed() > idle || t0.elapsed() > cap {
            return false;
        }
    }
}

/// like `wait_quiescent`, but the watchdog only fires when the session has not received any external event for
/// `idle` (progress based: a long backlog on a loaded machine is not a timeout), hard cap `cap`
pub fn wait_quiescent_progress(tracer: u32, sent: u64, idle: Duration, cap: Duration) -> Wait {
    let t0 = Instant::now();
    let mut last = u64::MAX;
    let mut last_change = Instant::now();
    loop {
        match wait_quiescent(tracer, sent, Duration::from_millis(200)) {
            Wait::Timeout => {}
            w => return w,
        }
        let x = {
            let w = lock();
            if w.overflow || session_died(&w, tracer) {
                return Wait::Timeout;
            }
            *w.xrecv.get(&tracer).unwrap_or(&0)
        };
        if x != last {
            last = x;
            last_change = Instant::now();
        }
        if last_change.elapsed() > idle || t0.elapsed() > cap {
            return Wait::Timeout;
        }
    }
}

/// Waits until the session is blocked in its external queue having consumed at least `min_consumed`
/// external events, and stays like that for `stable`; for documents that send events to themselves
/// without announcing them.
pub fn wait_idle_stable(tracer: u32, min_consumed: u64, stable: Duration, timeout: Duration) -> Wait {
    let deadline = Instant::now() + timeout;
    loop {
        {
            let w = lock();
            if w.finished.contains(&tracer) {
                return Wait::Finished;
            }
            if w.overflow || session_died(&w, tracer) {
                return Wait::Timeout;
            }
        }
        let snap = |w: &World| (*w.xrecv.get(&tracer).unwrap_or(&0), *w.idle.get(&tracer).unwrap_or(&0));
        let (x, i) = snap(&lock());
        if i == x + 1 && x >= min_consumed {
            std::thread::sleep(stable);
            let (x2, i2) = snap(&lock());
            if x2 == x && i2 == i {
                return Wait::Idle;
            }
            continue;
        }
        if Instant::now() >= deadline {
            return Wait::Timeout;
        }
        std::thread::sleep(Duration::from_millis(2));
    }
}
