//! C01 – the active configuration is always a legal SCXML state configuration.
use crate::docgen::*;
use crate::report::{Args, Report};
use crate::structural::*;

pub fn run(args: &Args, rep: &mut Report) {
    let mut w = Workload::new(args, rep, Focus::Legality);
    // fixed core corpus first (shard 0): guarantees that every gated shape is observed
    if args.shard == 0 {
        for dm in crate::c01::dms_available() {
            for (doc, paths) in crate::corpus::all(dm) {
                let f = crate::refsim::Flat::from_doc(&doc).unwrap();
                for p in &paths {
                    if w.run_one(&doc, &f, p, false) {
                        w.rep.nontrivial_key(&distinct_key(&doc, p));
                    }
                }
            }
        }
    }

    let dms = dms_available();
    // structured families: nested parallels completing in every order, histories at every level
    {
        let mut rng = args.rng(12);
        for d in 0..args.scale(24, 450) {
            if crate::report::should_stop() {
                break;
            }
            let dm = dms[d % dms.len()];
            let (doc, paths) = match d % 3 {
                0 => crate::corpus::history_tree(&mut rng, dm, d),
                1 => crate::corpus::done_tree(&mut rng, dm, d),
                _ => crate::corpus::conflict_tree(&mut rng, dm, d),
            };
            if let Ok(f) = crate::refsim::Flat::from_doc(&doc) {
                for p in paths.iter().take(if d % 3 == 2 { 6 } else { 3 }) {
                    if w.run_one(&doc, &f, p, false) {
                        w.rep.nontrivial_key(&distinct_key(&doc, p));
                    }
                }
            }
        }
    }
    let n_docs = args.scale(260, 3000);
    let tune = |o: &mut GenOpts| {
        o.w_parallel = 4;
        o.w_history = 3;
        o.w_multi_target = 3;
        o.w_final = 2;
        o.w_eventless = 1;
        o.w_raise = 1;
    };
    sweep(
        &mut w,
        n_docs,
        4,
        if args.thorough() { 30 } else { 12 },
        &dms,
        &tune,
        &|st, _doc| st.multi > 0 || st.hist_restore > 0 || st.preempted > 0 || st.done_parallel > 0,
        1,
    );
    w.flush_legality();
    let distinct: Vec<String> = w.lstats.distinct_configs.iter().take(3000).cloned().collect();
    for c in distinct {
        w.rep.set_add("distinct_configurations", &c);
    }
}

pub fn dms_available() -> Vec<Dm> {
    let mut v = vec![Dm::Null, Dm::Rfsm];
    if cfg!(feature = "full") {
        v.push(Dm::Ecma);
        v.push(Dm::Rfsm);
    }
    v
}
